// C12: integer -> text -> integer is exact for every value, width and base; to_* on arbitrary
// text agrees with the C library's strtol family and the ok/full_match flag rule.
//
// Every standard header the library uses is included first, so that the `abs` shim below is
// seen by the string_theory headers only.
#include <algorithm>
#include <cmath>
#include <complex>
#include <cstddef>
#include <cstdint>
#include <cstdio>
#include <cstdlib>
#include <filesystem>
#include <functional>
#include <istream>
#include <iterator>
#include <limits>
#include <ostream>
#include <stdexcept>
#include <string>
#include <string_view>
#include <type_traits>
#include <utility>
#include <vector>

#include "common/verif.h"
#include "ref/ref_inttext.h"

// "... is computed without undefined behaviour": abs/labs/llabs of the most negative value is
// undefined, but clang 14 expands them as builtins that -fsanitize=undefined does not instrument
// (checked with a probe: std::abs(INT_MIN) runs silently).  While the library headers are being
// read, `abs` therefore names a plain C++ definition with the same meaning - the operand after
// integral promotion, negated if negative - whose negation UBSan does instrument.  For every
// operand abs is defined for, the result is the same.
namespace std {
template <class T> constexpr auto c12_visible_abs(T v) -> decltype(+v) { auto p = +v; return p < 0 ? -p : p; }
}
using std::c12_visible_abs;
#define abs c12_visible_abs
#include <string_theory/format>
#include <string_theory/string>
#include <string_theory/string_stream>
#undef abs

using verif::Case;

// Defaults for this binary only (ASAN_OPTIONS from the driver still wins for the options it names): with the stock 256 MB
// quarantine and 30-frame allocation stacks a rapidcheck process grows by ~4 KB per case (0.9 GB after 200k cases, measured);
// with these it stays near 50 MB and runs twice as fast.  Error reports keep their full stack.
extern "C" const char *__asan_default_options() { return "quarantine_size_mb=16:malloc_context_size=3"; }

const verif::Info verif_info = {
    "C12", 64,
    "print direction: every short and unsigned short value (2 x 65536) x bases 2..36 x both letter cases enumerated; for int, long, long long and "
    "their unsigned counterparts a boundary table (0, +-1, min, min+1, max, max-1, 2^k-1/2^k/2^k+1, b^k-1/b^k/b^k+1 for every base b, both signs) "
    "x all 35 bases x both cases enumerated, plus generated values (small, table, random 64-bit patterns, powers of the chosen base +-2). "
    "Oracle: std::to_chars (+ upper-casing); from_int/from_uint must equal it; ST::format {}/{d}/{x}/{X}/{o}/{b} and string_stream<< must give the same "
    "text for bases 10/16/8/2; every to_* member wide enough for the value must parse it back in the same base with ok and full_match. "
    "parse direction: byte strings (length 0..40; structured whitespace/sign/prefix/digits/tail, near-limit magnitudes, raw biased alphabet with NUL and "
    "high bytes; every string of length <= 5 (quick) or 6 (thorough) over a 16-symbol alphabet enumerated) x bases {0,2..36}: all 8 to_* members, with "
    "and without conversion_result, against strtol/strtoll/strtoul/strtoull called by the harness on its own NUL-terminated copy, narrowed with "
    "static_cast; ok <=> consumed>0, full_match <=> consumed==size. Non-trivial: printed value negative or >= base (two or more digits); parse input "
    "with a partial match (consumed>0 and consumed<size) or a magnitude the C library reports as out of range.",
    true, "exploration"};

namespace {

// ---------------------------------------------------------------------------------------------
// The overload set under test, indexed by result type.
template <class R> struct Conv;
#define C12_CONV(TYPE, MEMBER, NAME)                                                                             \
    template <> struct Conv<TYPE> {                                                                              \
        static TYPE get(const ST::string &s, ST::conversion_result &r, int base) { return s.MEMBER(r, base); }   \
        static TYPE get(const ST::string &s, int base) { return s.MEMBER(base); }                                \
        static const char *name() { return NAME; }                                                               \
    };
C12_CONV(short, to_short, "to_short")
C12_CONV(int, to_int, "to_int")
C12_CONV(long, to_long, "to_long")
C12_CONV(long long, to_long_long, "to_long_long")
C12_CONV(unsigned short, to_ushort, "to_ushort")
C12_CONV(unsigned int, to_uint, "to_uint")
C12_CONV(unsigned long, to_ulong, "to_ulong")
C12_CONV(unsigned long long, to_ulong_long, "to_ulong_long")
#undef C12_CONV

template <class T> const char *type_name();
template <> const char *type_name<short>() { return "short"; }
template <> const char *type_name<int>() { return "int"; }
template <> const char *type_name<long>() { return "long"; }
template <> const char *type_name<long long>() { return "long long"; }
template <> const char *type_name<unsigned short>() { return "unsigned short"; }
template <> const char *type_name<unsigned int>() { return "unsigned int"; }
template <> const char *type_name<unsigned long>() { return "unsigned long"; }
template <> const char *type_name<unsigned long long>() { return "unsigned long long"; }

template <class F> auto with_type(int t, F &&f) {
    switch (t & 7) {
    case 0: return f(int{});
    case 1: return f(short{});
    case 2: return f(long{});
    case 3: return f((long long){});
    case 4: return f((unsigned int){});
    case 5: return f((unsigned short){});
    case 6: return f((unsigned long){});
    default: return f((unsigned long long){});
    }
}
template <class T> constexpr int type_index() {
    return std::is_same<T, int>::value ? 0 : std::is_same<T, short>::value ? 1 : std::is_same<T, long>::value ? 2 : std::is_same<T, long long>::value ? 3
         : std::is_same<T, unsigned int>::value ? 4 : std::is_same<T, unsigned short>::value ? 5 : std::is_same<T, unsigned long>::value ? 6 : 7;
}

std::string str_of(const ST::string &s) { return std::string(s.c_str(), s.size()); }
template <class T> std::string vstr(T v) { return std::is_signed<T>::value ? verif::num((long long)v) : verif::unum((unsigned long long)v); }

// ---------------------------------------------------------------------------------------------
// Print direction

template <class T> ST::string lib_print(T v, int base, bool upper) {
    if constexpr (std::is_signed<T>::value) return ST::string::from_int(v, base, upper);
    else return ST::string::from_uint(v, base, upper);
}

// parse the printed text back through member R; must give `v` with both flags
template <class R, class T> bool parse_back(const ST::string &s, int base, T v, std::string &why) {
    ST::conversion_result cr;
    R got = Conv<R>::get(s, cr, base);
    if (got != static_cast<R>(v) || !cr.ok() || !cr.full_match()) {
        why = std::string(Conv<R>::name()) + "(result, " + verif::num(base) + ") of " + verif::quoted(str_of(s)) + " gives " + vstr(got) + " ok=" +
              (cr.ok() ? "1" : "0") + " full_match=" + (cr.full_match() ? "1" : "0") + ", expected " + vstr(v) + " with ok and full_match";
        return false;
    }
    R got2 = Conv<R>::get(s, base);
    if (got2 != static_cast<R>(v)) {
        why = std::string(Conv<R>::name()) + "(" + verif::num(base) + ") of " + verif::quoted(str_of(s)) + " gives " + vstr(got2) + ", expected " + vstr(v);
        return false;
    }
    return true;
}

template <class T> std::string check_print(T v, int base, bool upper) {
    try {
        const std::string want = ref::int_text(v, base, upper);
        ST::string s = lib_print<T>(v, base, upper);
        const char *fn = std::is_signed<T>::value ? "from_int" : "from_uint";
        if (str_of(s) != want)
            return std::string(fn) + "(" + type_name<T>() + " " + vstr(v) + ", " + verif::num(base) + (upper ? ", upper" : "") + ") gives " +
                   verif::quoted(str_of(s)) + ", canonical text is " + verif::quoted(want);
        if (s.c_str()[s.size()] != 0) return std::string(fn) + " result is not NUL-terminated";

        // every member wide enough for the value reads it back
        std::string why;
        if constexpr (std::is_signed<T>::value) {
            if constexpr (sizeof(short) >= sizeof(T)) if (!parse_back<short>(s, base, v, why)) return why;
            if constexpr (sizeof(int) >= sizeof(T)) if (!parse_back<int>(s, base, v, why)) return why;
            if constexpr (sizeof(long) >= sizeof(T)) if (!parse_back<long>(s, base, v, why)) return why;
            if constexpr (sizeof(long long) >= sizeof(T)) if (!parse_back<long long>(s, base, v, why)) return why;
        } else {
            if constexpr (sizeof(unsigned short) >= sizeof(T)) if (!parse_back<unsigned short>(s, base, v, why)) return why;
            if constexpr (sizeof(unsigned int) >= sizeof(T)) if (!parse_back<unsigned int>(s, base, v, why)) return why;
            if constexpr (sizeof(unsigned long) >= sizeof(T)) if (!parse_back<unsigned long>(s, base, v, why)) return why;
            if constexpr (sizeof(unsigned long long) >= sizeof(T)) if (!parse_back<unsigned long long>(s, base, v, why)) return why;
            // a signed member strictly wider than the value is wide enough too
            if constexpr (sizeof(int) > sizeof(T)) if (!parse_back<int>(s, base, v, why)) return why;
            if constexpr (sizeof(long) > sizeof(T)) if (!parse_back<long>(s, base, v, why)) return why;
            if constexpr (sizeof(long long) > sizeof(T)) if (!parse_back<long long>(s, base, v, why)) return why;
        }

        // the other two printers give the same digits for bases 10, 16, 8, 2
        const char *fmt = nullptr, *fmt2 = nullptr;
        if (base == 10) { fmt = "{}"; fmt2 = "{d}"; }
        else if (base == 16) fmt = upper ? "{X}" : "{x}";
        else if (base == 8) fmt = "{o}";
        else if (base == 2) fmt = "{b}";
        if (fmt) {
            ST::string f = ST::format(fmt, v);
            if (str_of(f) != want)
                return std::string("ST::format(\"") + fmt + "\", " + type_name<T>() + " " + vstr(v) + ") gives " + verif::quoted(str_of(f)) +
                       ", from_int/from_uint and the canonical text are " + verif::quoted(want);
            if (fmt2) {
                ST::string f2 = ST::format(fmt2, v);
                if (str_of(f2) != want)
                    return std::string("ST::format(\"") + fmt2 + "\", " + type_name<T>() + " " + vstr(v) + ") gives " + verif::quoted(str_of(f2)) +
                           ", canonical text is " + verif::quoted(want);
            }
        }
        if (base == 10) {
            ST::string_stream ss;
            ss << v;
            std::string got(ss.raw_buffer(), ss.size());
            if (got != want)
                return std::string("string_stream << ") + type_name<T>() + " " + vstr(v) + " gives " + verif::quoted(got) + ", canonical text is " + verif::quoted(want);
            // and in the middle of other content
            ST::string_stream s2;
            s2 << "[" << v << "]";
            std::string got2(s2.raw_buffer(), s2.size());
            if (got2 != "[" + want + "]")
                return std::string("string_stream << \"[\" << ") + vstr(v) + " << \"]\" gives " + verif::quoted(got2);
        }
    } catch (...) {
        return "unexpected " + verif::describe_current_exception();
    }
    return std::string();
}

template <class T> std::string render_print(T v, int base, bool upper) {
    return std::string("C12 print ") + type_name<T>() + " " + vstr(v) + " base=" + verif::num(base) + (upper ? " upper" : " lower") + " -> " +
           verif::quoted(ref::int_text(v, base, upper)) + "; from_int/from_uint, format, string_stream and to_* round trip checked";
}

// boundary table of a type (both tiers enumerate it completely; the generator indexes into it)
template <class T> const std::vector<T> &boundaries() {
    static const std::vector<T> tab = [] {
        typedef typename std::make_unsigned<T>::type U;
        std::vector<T> o;
        auto add = [&](U mag) {
            o.push_back(static_cast<T>(mag));
            if (std::is_signed<T>::value) o.push_back(static_cast<T>(U(0) - mag));
        };
        add(0); add(1);
        o.push_back(std::numeric_limits<T>::min()); o.push_back(T(std::numeric_limits<T>::min() + 1));
        o.push_back(std::numeric_limits<T>::max()); o.push_back(T(std::numeric_limits<T>::max() - 1));
        for (int k = 0; k < std::numeric_limits<U>::digits; k++) { U p = U(U(1) << k); add(U(p - 1)); add(p); add(U(p + 1)); }
        for (unsigned b = 3; b <= 36; b++) {
            U p = 1;
            while (p <= std::numeric_limits<U>::max() / b) { p = U(p * b); add(U(p - 1)); add(p); add(U(p + 1)); }
        }
        std::sort(o.begin(), o.end());
        o.erase(std::unique(o.begin(), o.end()), o.end());
        return o;
    }();
    return tab;
}

void directed_print_bytes(uint8_t *out, int tindex, int base, bool upper, uint64_t bits) {
    out[0] = 0xFF; out[1] = (uint8_t)tindex; out[2] = (uint8_t)base; out[3] = upper ? 1 : 0;
    for (int i = 0; i < 8; i++) out[4 + i] = (uint8_t)(bits >> (8 * i));
}

// ---------------------------------------------------------------------------------------------
// Parse direction

struct ParseFacts { size_t consumed; bool range; };

template <class R, class V>
bool parse_one(const ST::string &s, int base, const ref::Parsed<V> &p, size_t size, std::string &why) {
    const R want = static_cast<R>(p.value);          // "narrowed to the result type"
    const bool want_ok = p.ok(size), want_full = p.full_match(size);
    ST::conversion_result cr;
    R got = Conv<R>::get(s, cr, base);
    if (got != want || cr.ok() != want_ok || cr.full_match() != want_full) {
        why = std::string(Conv<R>::name()) + "(result, " + verif::num(base) + ") gives " + vstr(got) + " ok=" + (cr.ok() ? "1" : "0") + " full_match=" +
              (cr.full_match() ? "1" : "0") + "; the C library returns " + vstr(p.value) + " (narrowed " + vstr(want) + ") consuming " +
              verif::unum(p.consumed) + " of " + verif::unum(size) + " bytes, so ok=" + (want_ok ? "1" : "0") + " full_match=" + (want_full ? "1" : "0");
        return false;
    }
    R got2 = Conv<R>::get(s, base);
    if (got2 != want) {
        why = std::string(Conv<R>::name()) + "(" + verif::num(base) + ") gives " + vstr(got2) + "; the C library returns " + vstr(p.value) + " (narrowed " + vstr(want) + ")";
        return false;
    }
    return true;
}

std::string check_parse(const uint8_t *bytes, size_t n, int base, ParseFacts *facts) {
    // what the library gets: a string built from an exact-size block (no terminator to lean on)
    verif::Exact<char> src(reinterpret_cast<const char *>(bytes), n);
    // what the C library gets from the harness: the same bytes followed by a NUL
    verif::Exact<char> z(reinterpret_cast<const char *>(bytes), n, true);
    try {
        const ref::Parsed<long> pl = ref::c_strtol(z.data(), base);
        const ref::Parsed<long long> pll = ref::c_strtoll(z.data(), base);
        const ref::Parsed<unsigned long> pul = ref::c_strtoul(z.data(), base);
        const ref::Parsed<unsigned long long> pull = ref::c_strtoull(z.data(), base);
        if (facts) { facts->consumed = pl.consumed; facts->range = pl.range || pll.range || pul.range || pull.range; }
        ST::string s = ST::string::from_validated(src.data(), n);
        std::string why;
        if (!parse_one<short>(s, base, pl, n, why)) return why;
        if (!parse_one<int>(s, base, pl, n, why)) return why;
        if (!parse_one<long>(s, base, pl, n, why)) return why;
        if (!parse_one<long long>(s, base, pll, n, why)) return why;
        if (!parse_one<unsigned short>(s, base, pul, n, why)) return why;
        if (!parse_one<unsigned int>(s, base, pul, n, why)) return why;
        if (!parse_one<unsigned long>(s, base, pul, n, why)) return why;
        if (!parse_one<unsigned long long>(s, base, pull, n, why)) return why;
    } catch (...) {
        return "unexpected " + verif::describe_current_exception();
    }
    return std::string();
}

std::string render_parse(const uint8_t *bytes, size_t n, int base) {
    verif::Exact<char> z(reinterpret_cast<const char *>(bytes), n, true);
    ref::Parsed<long long> p = ref::c_strtoll(z.data(), base);
    ref::Parsed<unsigned long long> pu = ref::c_strtoull(z.data(), base);
    return "C12 parse base=" + verif::num(base) + " text=" + verif::quoted(std::string((const char *)bytes, n)) + " (" + verif::unum(n) + " bytes) -> strtoll " +
           verif::num(p.value) + (p.range ? " (ERANGE)" : "") + ", strtoull " + verif::unum(pu.value) + (pu.range ? " (ERANGE)" : "") + ", consumed " +
           verif::unum(p.consumed) + " => ok=" + (p.consumed ? "1" : "0") + " full_match=" + (p.consumed == n ? "1" : "0") + "; all 8 to_* members compared";
}

int base_from_code(unsigned code) { unsigned k = code % 36; return k == 0 ? 0 : int(k + 1); }   // 0 -> base 0, 1..35 -> 2..36
uint8_t code_from_base(int base) { return base == 0 ? 0 : uint8_t(base - 1); }

char digit_char(unsigned d, bool upper) { return d < 10 ? char('0' + d) : char((upper ? 'A' : 'a') + (d - 10)); }

// magnitude (up to 2^65) in a base, for the near-limit generator
std::string mag_text(unsigned __int128 m, int base, bool upper) {
    std::string s;
    if (m == 0) s = "0";
    while (m) { s.insert(s.begin(), digit_char(unsigned(m % base), upper)); m /= base; }
    return s;
}

void label_base(Case &c, int base) {
    c.label(base == 0 ? "base:0" : base == 10 ? "base:10" : base == 16 ? "base:16" : base == 8 ? "base:8" : base == 2 ? "base:2" : base < 10 ? "base:3..9" : "base:11..36");
}

int run_parse_case(Case &c, const std::vector<uint8_t> &text, int base) {
    ParseFacts pf{0, false};
    if (c.want_text) c.text = render_parse(text.data(), text.size(), base);
    std::string why = check_parse(text.data(), text.size(), base, &pf);
    const size_t n = text.size();
    c.label(n == 0 ? "parse:empty" : pf.consumed == 0 ? "parse:nothing-consumed" : pf.consumed == n ? "parse:full-match" : "parse:partial-match");
    if (pf.range) c.label("parse:out-of-range");
    if (std::find(text.begin(), text.end(), 0) != text.end()) c.label("parse:embedded-NUL");
    label_base(c, base);
    c.nontrivial = (pf.consumed > 0 && pf.consumed < n) || pf.range;
    if (!why.empty()) return c.fail(why);
    return verif::CASE_OK;
}

const int kPrintBases[] = {10, 16, 8, 2, 10, 16, 8, 2, 2, 3, 4, 5, 6, 7, 8, 9, 10, 11, 12, 13, 14, 15, 16, 17, 18, 19,
                           20, 21, 22, 23, 24, 25, 26, 27, 28, 29, 30, 31, 32, 33, 34, 35, 36};
const int kParseBases[] = {0, 10, 16, 8, 2, 36, 0, 10, 16, 2, 3, 4, 5, 6, 7, 8, 9, 10, 11, 12, 13, 14, 15, 16, 17, 18, 19,
                           20, 21, 22, 23, 24, 25, 26, 27, 28, 29, 30, 31, 32, 33, 34, 35, 36};
const char kAlphabet[] = {'0', '1', '2', '3', '4', '5', '6', '7', '8', '9', '0', '1', '7', '9', 'a', 'b', 'c', 'd', 'e', 'f', 'A', 'B', 'F', 'x', 'X',
                          'z', 'Z', 'g', 'o', '-', '+', ' ', ' ', '\t', '\n', '\0', (char)0x80, (char)0xFF, '.', '_'};
const char kSpaces[] = {' ', '\t', '\n', '\v', '\f', '\r'};
const uint8_t kTails[] = {0, ' ', 'z', '.', 0x80, 0xFF, '-', 'x', 'g', '_', '+', '9', '\n', 'Z', 'e', ','};

}  // namespace

int verif_case(const uint8_t *data, size_t size, Case &c) {
    verif::Reader r(data, size, c);
    const uint8_t mode = r.u8();

    if (mode == 0xFF) {                                   // directed print (enumerator failures, seeds)
        int t = r.u8() & 7; int base = 2 + r.u8() % 35; bool upper = r.u8() & 1; uint64_t bits = r.bits64();
        c.label("directed-print");
        return with_type(t, [&](auto tag) -> int {
            typedef decltype(tag) T;
            T v = static_cast<T>(bits);
            c.nontrivial = v < 0 || (unsigned long long)v >= (unsigned long long)base;
            if (c.want_text) c.text = render_print<T>(v, base, upper);
            std::string why = check_print<T>(v, base, upper);
            return why.empty() ? verif::CASE_OK : c.fail(why);
        });
    }
    if (mode == 0xFE) {                                   // directed parse: base code, then the text itself
        int base = base_from_code(r.u8());
        std::vector<uint8_t> text;
        while (!r.exhausted()) text.push_back(r.u8());
        c.label("directed-parse");
        return run_parse_case(c, text, base);
    }

    if ((mode & 1) == 0) {
        // ------------------------------------------------------------------ print direction
        const int t = (int)r.idx(8);
        const int base = r.pick(kPrintBases);
        const bool upper = r.flag();
        const unsigned src = (mode >> 1) & 3;
        return with_type(t, [&](auto tag) -> int {
            typedef decltype(tag) T;
            typedef typename std::make_unsigned<T>::type U;
            T v;
            if (src == 0) {                               // small magnitudes around the digit-count steps of small bases
                U m = (U)r.range(0, 1300);
                v = (std::is_signed<T>::value && r.flag()) ? static_cast<T>(U(0) - m) : static_cast<T>(m);
                c.label("value:small");
            } else if (src == 1) {
                const std::vector<T> &tab = boundaries<T>();
                v = tab[r.idx(tab.size())];
                c.label("value:boundary-table");
            } else if (src == 2) {
                v = static_cast<T>(r.bits64());
                c.label("value:random-bits");
            } else {                                      // power of the chosen base +- 2
                unsigned k = (unsigned)r.range(0, 64);
                int delta = (int)r.range(0, 4) - 2;
                U p = 1;
                for (unsigned i = 0; i < k && p <= std::numeric_limits<U>::max() / (unsigned)base; i++) p = U(p * (unsigned)base);
                U m = U(p + (U)delta);
                v = (std::is_signed<T>::value && r.flag()) ? static_cast<T>(U(0) - m) : static_cast<T>(m);
                c.label("value:base-power+-2");
            }
            static const char *const tl[] = {"type:int", "type:short", "type:long", "type:long long", "type:unsigned int", "type:unsigned short",
                                             "type:unsigned long", "type:unsigned long long"};
            c.label(tl[type_index<T>()]);
            label_base(c, base);
            c.label(upper ? "case:upper" : "case:lower");
            if (v < 0) c.label("value:negative");
            if (std::is_signed<T>::value && v == std::numeric_limits<T>::min()) c.label("value:most-negative");
            if (v == std::numeric_limits<T>::max()) c.label("value:max");
            c.nontrivial = v < 0 || (unsigned long long)v >= (unsigned long long)base;
            if (c.want_text) c.text = render_print<T>(v, base, upper);
            std::string why = check_print<T>(v, base, upper);
            return why.empty() ? verif::CASE_OK : c.fail(why);
        });
    }

    // ---------------------------------------------------------------------- parse direction
    const int base = r.pick(kParseBases);
    const unsigned sub = (mode >> 1) & 3;
    std::vector<uint8_t> text;
    if (sub == 0 || sub == 1) {
        // structured: whitespace, sign, prefix, digits, tail
        c.label("text:structured");
        unsigned nsp = (unsigned)r.range(0, 3); if (nsp == 3) nsp = 0;
        for (unsigned i = 0; i < nsp; i++) text.push_back((uint8_t)r.pick(kSpaces));
        switch (r.range(0, 5)) { case 1: text.push_back('-'); break; case 2: text.push_back('+'); break; case 3: text.push_back('-'); text.push_back('-'); break;
                                 case 4: text.push_back('+'); text.push_back('-'); break; case 5: text.push_back('-'); text.push_back(' '); break; default: break; }
        int db = base ? base : 10;                        // the base the digits are drawn from
        switch (r.range(0, 7)) {
        case 1: text.push_back('0'); text.push_back('x'); if (!base) db = 16; break;
        case 2: text.push_back('0'); text.push_back('X'); if (!base) db = 16; break;
        case 3: text.push_back('0'); if (!base) db = 8; break;
        case 4: text.push_back('0'); text.push_back('b'); if (!base) db = 2; break;
        case 5: text.push_back('0'); text.push_back('0'); text.push_back('0'); break;
        default: break;
        }
        if (r.chance(48)) db = (int)r.range(2, 36);       // digits that may not belong to the base
        static const uint8_t nd[] = {1, 0, 2, 3, 4, 5, 8, 9, 10, 11, 13, 14, 15, 16, 17, 19, 20, 21, 22, 31, 32, 33, 34};
        unsigned ndig = r.pick(nd);
        for (unsigned i = 0; i < ndig; i++) { uint8_t b = r.u8(); text.push_back((uint8_t)digit_char(b % (unsigned)db, (b & 0x80) != 0)); }
        unsigned ntail = (unsigned)r.range(0, 3); if (ntail == 3) ntail = 0;
        for (unsigned i = 0; i < ntail; i++) text.push_back(r.pick(kTails));
        if (ntail && r.flag()) text.push_back((uint8_t)digit_char((unsigned)r.range(0, 35), false));
    } else if (sub == 2) {
        // near the limits of the result types: 2^k + delta in the parse base, optional sign
        c.label("text:near-limit");
        static const uint8_t ks[] = {63, 64, 31, 32, 15, 16, 7, 8, 62, 65};
        unsigned k = r.pick(ks);
        int delta = (int)r.range(0, 4) - 2;
        unsigned __int128 m = ((unsigned __int128)1 << k) + (unsigned __int128)(__int128)delta;
        unsigned sgn = (unsigned)r.range(0, 2);
        if (sgn == 1) text.push_back('-'); else if (sgn == 2) text.push_back('+');
        int db = base ? base : 10;
        bool hexpfx = (base == 0 || base == 16) && r.flag();
        if (hexpfx) { text.push_back('0'); text.push_back(r.flag() ? 'X' : 'x'); db = 16; }
        std::string digits = mag_text(m, db, r.flag());
        text.insert(text.end(), digits.begin(), digits.end());
        if (r.chance(40)) text.push_back(r.pick(kTails));
    } else {
        c.label("text:raw-alphabet");
        static const uint8_t lens[] = {0, 1, 2, 3, 4, 5, 6, 7, 8, 10, 12, 16, 20, 24, 32, 40};
        size_t n = r.pick(lens);
        for (size_t i = 0; i < n; i++) {
            uint8_t b = r.u8();
            text.push_back(b < 224 ? (uint8_t)kAlphabet[b % sizeof kAlphabet] : r.u8());
        }
    }
    return run_parse_case(c, text, base);
}

// ---------------------------------------------------------------------------------------------
// Enumerations.
namespace {

struct EnumCtx {
    verif::EnumReport &r; uint8_t cur[64];
    explicit EnumCtx(verif::EnumReport &rep) : r(rep) {}
    template <class T> bool print(T v, int base, bool upper) {
        typedef typename std::make_unsigned<T>::type U;
        directed_print_bytes(cur, type_index<T>(), base - 2, upper, (uint64_t)(U)v);
        verif::set_current(cur, 12);
        r.evaluations++;
        if (v < 0 || (unsigned long long)v >= (unsigned long long)base) r.nontrivial++;
        std::string why = check_print<T>(v, base, upper);
        if (!why.empty()) {
            if (r.failure.empty()) { r.failure = why; r.failing_case = render_print<T>(v, base, upper); r.failing_bytes.assign(cur, cur + 12); }
            return false;
        }
        return true;
    }
    bool parse(const uint8_t *text, size_t n, int base) {
        cur[0] = 0xFE; cur[1] = code_from_base(base); if (n) memcpy(cur + 2, text, n);
        verif::set_current(cur, n + 2);
        r.evaluations++;
        ParseFacts pf{0, false};
        std::string why = check_parse(text, n, base, &pf);
        if ((pf.consumed > 0 && pf.consumed < n) || pf.range) r.nontrivial++;
        if (!why.empty()) {
            if (r.failure.empty()) { r.failure = why; r.failing_case = render_parse(text, n, base); r.failing_bytes.assign(cur, cur + n + 2); }
            return false;
        }
        return true;
    }
    template <class T> bool table(int shard, int nshards) {
        const std::vector<T> &tab = boundaries<T>();
        for (size_t i = (size_t)shard; i < tab.size(); i += (size_t)nshards)
            for (int base = 2; base <= 36; base++)
                for (int up = 0; up < 2; up++)
                    if (!print<T>(tab[i], base, up != 0)) return false;
        if (shard == 0 && r.want_sample() && !tab.empty()) r.samples.push_back(render_print<T>(tab[0], 16, true));
        return true;
    }
};

const uint8_t kEnumAlphabet[16] = {'0', '1', '7', '9', 'a', 'F', 'z', 'x', 'X', '-', '+', ' ', '\t', 0x00, 0xFF, 'b'};

}  // namespace

long verif_enumerate(int shard, int nshards, int tier, verif::EnumReport &r) {
    EnumCtx e(r);
    // (a) every 16-bit value, signed and unsigned, x 35 bases x both cases
    for (int a = shard; a < 65536; a += nshards) {
        for (int base = 2; base <= 36; base++)
            for (int up = 0; up < 2; up++) {
                if (!e.print<short>(static_cast<short>(static_cast<unsigned short>(a)), base, up != 0)) return r.evaluations;
                if (!e.print<unsigned short>(static_cast<unsigned short>(a), base, up != 0)) return r.evaluations;
            }
    }
    if (shard == 0) {
        r.samples.push_back(render_print<short>(std::numeric_limits<short>::min(), 2, false));
        r.samples.push_back(render_print<unsigned short>(65535, 36, true));
    }
    // (b) boundary tables of the wider types x 35 bases x both cases
    if (!e.table<int>(shard, nshards) || !e.table<unsigned int>(shard, nshards) || !e.table<long>(shard, nshards) || !e.table<unsigned long>(shard, nshards) ||
        !e.table<long long>(shard, nshards) || !e.table<unsigned long long>(shard, nshards))
        return r.evaluations;
    // (c) parse direction: every string of length <= L over a 16-symbol alphabet x every base
    const int L = tier == 0 ? 5 : 6;
    uint8_t s[8];
    if (shard == 0)
        for (unsigned code = 0; code < 36; code++) if (!e.parse(s, 0, base_from_code(code))) return r.evaluations;
    for (int first = shard; first < 16; first += nshards) {
        s[0] = kEnumAlphabet[first];
        for (int len = 1; len <= L; len++) {
            long count = 1; for (int i = 1; i < len; i++) count *= 16;
            for (long idx = 0; idx < count; idx++) {
                long v = idx; for (int i = 1; i < len; i++) { s[i] = kEnumAlphabet[v & 15]; v >>= 4; }
                for (unsigned code = 0; code < 36; code++) if (!e.parse(s, (size_t)len, base_from_code(code))) return r.evaluations;
            }
        }
        if (r.want_sample()) {            // one differently shaped sample per shard
            static const char *const shapes[16] = {"x7Fz", "7\0" "19", "-0x1Fz", " +019", "z-1", "\t-zz ", "0b101", "F\xFF", "Xx7", " -0X", "+ 7", "  7 ", "\t9a", "\0" "77", "\xFF" "1", "b0b1"};
            const char *sh = shapes[first]; size_t sn = first == 1 || first == 13 ? 4 : strlen(sh);
            r.samples.push_back(render_parse((const uint8_t *)sh, sn, first % 3 == 0 ? 0 : first % 3 == 1 ? 16 : 36));
        }
    }
    if (shard == 0) {
        r.exhausted.push_back("print: all 65536 short and all 65536 unsigned short values x bases 2..36 x both letter cases (9,175,040 values x printers x parse-back)");
        r.exhausted.push_back("print: boundary tables of int/long/long long and unsigned counterparts (0, +-1, min, min+1, max, max-1, 2^k+-1, b^k+-1 for b=3..36) x bases 2..36 x both cases");
        r.exhausted.push_back(std::string("parse: every byte string of length 0..") + (tier == 0 ? "5" : "6") +
                              " over {0 1 7 9 a F z x X - + space tab NUL 0xFF b} x bases {0,2..36} x 8 to_* members x 2 overloads");
    }
    return r.evaluations;
}

void verif_corpus(std::vector<std::vector<uint8_t>> &out) {
    auto parse_seed = [&](int base, const char *t, size_t n) { std::vector<uint8_t> v{0xFE, code_from_base(base)}; v.insert(v.end(), t, t + n); out.push_back(v); };
    parse_seed(0, "0x7fffffff", 10);
    parse_seed(10, "  -80000 ", 9);
    parse_seed(16, "-8000000000000000", 17);
    parse_seed(0, "0777", 4);
    parse_seed(36, "zz\0zz", 5);
    parse_seed(0, "18446744073709551616", 20);
    uint8_t b[12];
    directed_print_bytes(b, 3, 16 - 2, true, 0x8000000000000000ull); out.push_back(std::vector<uint8_t>(b, b + 12));
    directed_print_bytes(b, 0, 10 - 2, false, 0x80000000ull); out.push_back(std::vector<uint8_t>(b, b + 12));
    out.push_back({0, 0, 0, 0});
    out.push_back({1, 0, 0, 0, 0, 1, '7'});
}
