// C13: floating-point text equals the C library rendering for every value and precision;
// to_float/to_double agree with strtof/strtod and the ok/full_match flag rule.
#include <string_theory/format>
#include <string_theory/string>
#include <string_theory/string_stream>

#include <algorithm>
#include <cfloat>
#include <cmath>
#include <complex>
#include <limits>
#include <optional>
#include <string_view>

#include <cfenv>
#include "common/verif.h"
#include "ref/ref_floattext.h"

using verif::Case;

// Defaults for this binary only (ASAN_OPTIONS from the driver still wins for the options it names): with the stock 256 MB
// quarantine and 30-frame allocation stacks a rapidcheck process grows by ~4 KB per case (0.9 GB after 200k cases, measured);
// with these it stays near 50 MB and runs twice as fast.  Error reports keep their full stack.
extern "C" const char *__asan_default_options() { return "quarantine_size_mb=16:malloc_context_size=3"; }

const verif::Info verif_info = {
    "C13", 96,
    "render direction: doubles and floats from a directed table (+-0, +-inf, quiet/signalling/negative NaN, min/max normal and subnormal, 10^k for every "
    "k in range, 2^k for every k in range, the two neighbours of each, rounding/notation-switch cases, both signs: about 16,500 doubles and 1,600 floats), "
    "random 64/32-bit patterns and simple decimals; x notation {default,f,e,E} x precision {absent, 0..400} x '+' x width {none, len-1, len, len+1, len+5, "
    "40, 300, random<=300} x alignment {default,<,>} x pad {none, '0' flag, _c for 24 ASCII pad characters incl. digits and braces}, flags in random "
    "order (digit-bearing parts never glued), optional literal text around the field. The enumerator runs table x notation x precision table x '+' with "
    "width/alignment/pad rotating. Oracle: snprintf(\"%[+][.P]{g,f,e,E}\") of the same double (floats promoted) sized by snprintf(nullptr,0), then pad "
    "character on the alignment side (default right); from_float/from_double(v, letter in efgEFG) == snprintf(\"%letter\"); string_stream<< == \"%g\". "
    "parse direction: texts printed from values (%g/%e/%f/%a, 0..20 digits) with whitespace/sign/tail decoration, structured decimal/hex/inf/nan "
    "spellings with huge and tiny exponents, decimals a hair above a float rounding midpoint, raw bytes from a float alphabet incl. NUL and high bytes: "
    "to_float/to_double with and without conversion_result vs strtof/strtod called by the harness (bit-equal or both NaN; ok <=> consumed>0, full_match "
    "<=> consumed==size). Any exception (ST_ASSERT arrives as one), abort or sanitizer report is a violation. Non-trivial: rendering longer than 24 "
    "characters, or value non-finite or subnormal; for parsing: something consumed and (partial match, or result non-finite/subnormal/out of range). "
    "Extension: with every from_* check also from_double(float), from_float((double)float), from_float((float)double) (each overload renders the value it "
    "is given), ST::float_formatter<float/double> used directly (format/text/size/NUL; one object re-used for -max in 'f' notation - the longest rendering "
    "the type has -, the tested value and 0), an unsupported format letter (a A d i u x s c p n % l L h q digits . # * - + blank NUL high bytes ...) "
    "through from_float, from_double and float_formatter::format - ST::bad_format expected (a printf-equal %a/%A rendering would be accepted), "
    "ST::format(validation, ...), ST::format_latin_1 and the _stfmt literal. Complex class: std::complex<float/double> (lvalue and rvalue) through "
    "ST::format with the same spec generator - expected <re>+<im>i with each part rendered and padded like a lone value. Stream class: string_stream << "
    "float/double and ST::format of the same (any notation/precision) after 0..5000 bytes of earlier output reached in 7 ways (one append, many small "
    "appends, grown then truncated, overfilled then erased, move-constructed, move-assigned over a grown stream, emptied and refilled) followed by 5 kinds "
    "of further appends, byte model; fill levels biased to renderings that straddle or end on a capacity step (256 x 2^k); every fill level enumerated. "
    "Parse direction additionally: conversion_result objects that were first used on a text producing each of the four flag combinations (\"\", \"1\", "
    "\" \", \"1 \"; through to_double or to_float) and are used on that text again afterwards, a chain of four calls on one object (all of this for texts "
    "<= 512 bytes, one hashed pair otherwise and in the enumerator); subjects built through 10 construction routes (char8_t, std::u8string, string_view, "
    "UTF-16, substr of a longer string with digits around it, move, +=, default-constructed); texts of several KB (blank runs, leading zeros, 1 followed by "
    "38/39/308/309/5000 zeros, 0.000...d underflow, long hex mantissas, zero-padded and huge exponents, a stopper followed by a long digit run); the "
    "enumerator parses every string of length <= 4 (quick) / 5 (thorough) over a 16-symbol alphabet and the special spellings with prefixes and suffixes. "
    "Non-trivial for the stream class: a rendering straddles or ends on a capacity step, or the fill is beyond the in-object capacity.",
    true, "exploration"};

namespace {

std::string str_of(const ST::string &s) { return std::string(s.c_str(), s.size()); }

double dbl_from_bits(uint64_t b) { double d; memcpy(&d, &b, 8); return d; }
float flt_from_bits(uint32_t b) { float f; memcpy(&f, &b, 4); return f; }
uint64_t bits_of(double d) { uint64_t b; memcpy(&b, &d, 8); return b; }
uint32_t bits_of(float f) { uint32_t b; memcpy(&b, &f, 4); return b; }

const char kConv[4] = {'g', 'f', 'e', 'E'};
const char kLetters[6] = {'g', 'f', 'e', 'E', 'G', 'F'};
const char kPadChars[] = {'*', ' ', '_', '0', '-', '+', '.', 'x', '}', '{', '<', '>', '#', '5', '9', 'e', 'f', 'E', '~', '\t', '&', 'd', '1', '\x7F'};

// ---------------------------------------------------------------------------------------------
struct RenderCase {
    bool is_float = false;
    uint64_t bits = 0;       // the double's bits, or the float's in the low 32
    int conv = 0;            // index into kConv
    int prec = -1;           // -1 absent
    bool plus = false;
    int width = 0;           // 0 none
    int align = 0;           // 0 default, 1 '<', 2 '>'
    int padkind = 0;         // 0 none, 1 '0' flag, 2 '_' + padch
    char padch = '*';
    unsigned order = 0;      // permutation of the flag parts
    int ctx = 0;             // literal text around the field
    int letter = 0;          // index into kLetters for from_float/from_double; -1: skip these
    bool cplx = false;       // the argument is std::complex<float/double>(value(), value2())
    uint64_t bits2 = 0;      // imaginary part (same representation as bits)
    double value() const { return is_float ? (double)flt_from_bits((uint32_t)bits) : dbl_from_bits(bits); }
    double value2() const { return is_float ? (double)flt_from_bits((uint32_t)bits2) : dbl_from_bits(bits2); }
};

// "{...}" for the case.  Flags in the order chosen by `order`; a digit-bearing part never directly
// follows a part that ends in a digit run ("{.310}" is precision 310, "{100}" is width 100).
std::string build_field(const RenderCase &rc) {
    std::vector<std::pair<char, std::string>> parts;   // kind, text
    if (rc.align == 1) parts.push_back({'A', "<"}); else if (rc.align == 2) parts.push_back({'A', ">"});
    if (rc.padkind == 1) parts.push_back({'Z', "0"}); else if (rc.padkind == 2) parts.push_back({'P', std::string("_") + rc.padch});
    if (rc.plus) parts.push_back({'S', "+"});
    if (rc.conv) parts.push_back({'C', std::string(1, kConv[rc.conv])});
    if (rc.width > 0) parts.push_back({'W', std::to_string(rc.width)});
    if (rc.prec >= 0) parts.push_back({'R', "." + std::to_string(rc.prec)});
    unsigned ord = rc.order;
    for (size_t i = parts.size(); i > 1; i--) { size_t j = ord % i; ord /= (unsigned)i; std::swap(parts[i - 1], parts[j]); }
    for (bool again = true; again;) {
        again = false;
        for (size_t i = 0; i + 1 < parts.size(); i++) {
            bool ends_digits = parts[i].first == 'W' || parts[i].first == 'R';
            bool starts_digit = parts[i + 1].first == 'W' || parts[i + 1].first == 'Z';
            if (ends_digits && starts_digit) { std::swap(parts[i], parts[i + 1]); again = true; }
        }
    }
    std::string f = "{";
    for (auto &p : parts) f += p.second;
    return f + "}";
}

const char *const kCtxPre[4] = {"", "xx", "{{", "["};
const char *const kCtxPost[4] = {"", "xx", "}}", "]"};
const char *const kCtxPreOut[4] = {"", "xx", "{", "["};
const char *const kCtxPostOut[4] = {"", "xx", "}", "]"};

std::string value_text(const RenderCase &rc) {
    char buf[200];
    if (rc.cplx && rc.is_float) snprintf(buf, sizeof buf, "std::complex<float>(%.9g, %.9g) (bits %08X, %08X)", rc.value(), rc.value2(), (unsigned)rc.bits, (unsigned)rc.bits2);
    else if (rc.cplx) snprintf(buf, sizeof buf, "std::complex<double>(%.17g, %.17g) (bits %016llX, %016llX)", rc.value(), rc.value2(), (unsigned long long)rc.bits, (unsigned long long)rc.bits2);
    else if (rc.is_float) snprintf(buf, sizeof buf, "float %.9g (bits %08X)", rc.value(), (unsigned)rc.bits);
    else snprintf(buf, sizeof buf, "double %.17g (bits %016llX)", rc.value(), (unsigned long long)rc.bits);
    return buf;
}

std::string render_render(const RenderCase &rc) {
    std::string fmt = std::string(kCtxPre[rc.ctx & 3]) + build_field(rc) + kCtxPost[rc.ctx & 3];
    std::string text = ref::c_printf_double(rc.value(), kConv[rc.conv], rc.plus, rc.prec);
    if (rc.cplx)
        return "C13 render " + value_text(rc) + " ST::format(" + verif::quoted(fmt) + ") ~ each part as printf " + verif::quoted(text, 40) + " / " +
               verif::quoted(ref::c_printf_double(rc.value2(), kConv[rc.conv], rc.plus, rc.prec), 40) + " padded to " + verif::num(rc.width) + ", joined as <re>+<im>i";
    return "C13 render " + value_text(rc) + " ST::format(" + verif::quoted(fmt) + ") ~ printf " + verif::quoted(text, 40) + " (" + verif::unum(text.size()) +
           " chars) padded to " + verif::num(rc.width) + (rc.letter >= 0 ? std::string("; from_*(v,'") + kLetters[rc.letter] + "'), float_formatter, unsupported letters and string_stream<< checked" : "");
}

struct RenderFacts { size_t len = 0; };

// ---------------------------------------------------------------------------------------------
// Further public routes (added with the extension of this harness)

// letters float_formatter / from_float / from_double do not support
const char kBadLetters[] = {'a', 'A', 'd', 'i', 'u', 'x', 'X', 'o', 's', 'c', 'p', 'n', '%', 'l', 'L', 'h', 'q', '0', '1', '.', '#', '*', '-', '+', ' ', '\0', 'D', 'S', 'N', 'z', (char)0x80, (char)0xFF, 'H', '\n'};

std::string letter_text(char L) { char b[16]; if (L >= 0x20 && L < 0x7F) snprintf(b, sizeof b, "'%c'", L); else snprintf(b, sizeof b, "'\\x%02X'", (unsigned char)L); return b; }

// An unsupported letter is answered with ST::bad_format.  (A tree that additionally supported the two remaining printf conversions for
// doubles, %a / %A, would still satisfy the property if it rendered them as printf does; everything else is a violation.)
template <class Fn> std::string expect_bad_format(Fn fn, char bad, double dv, const char *what) {
    try {
        std::string got = fn();
        if ((bad == 'a' || bad == 'A') && got == ref::c_printf_double(dv, bad, false, -1)) return std::string();
        return std::string(what) + " with the unsupported format letter " + letter_text(bad) + " returned " + verif::quoted(got, 60) + " instead of throwing ST::bad_format";
    } catch (const ST::bad_format &) {
        return std::string();
    }
}

bool same_text(const ST::string &got, const std::string &want) { return got.size() == want.size() && memcmp(got.c_str(), want.data(), want.size()) == 0 && got.c_str()[got.size()] == 0; }

template <class F> std::string check_float_formatter(F v, char L, const std::string &wl, const std::string &vt) {
    // one object, three values: the longest rendering the type has (-max, 'f'), then the value under test, then "0"
    ST::float_formatter<F> ff;
    const F longest = -std::numeric_limits<F>::max();
    const std::string wlong = ref::c_printf_double((double)longest, 'f', false, -1);
    ff.format(longest, 'f');
    if (ff.size() != wlong.size() || std::string(ff.text(), ff.size()) != wlong || ff.text()[ff.size()] != 0)
        return "float_formatter::format(-max, 'f') gives " + verif::quoted(std::string(ff.text(), ff.size()), 60) + " (" + verif::unum(ff.size()) + " chars), printf %f gives " + verif::unum(wlong.size()) + " chars";
    ff.format(v, L);
    if (ff.size() != wl.size() || std::string(ff.text(), ff.size()) != wl)
        return "float_formatter::format(" + vt + ", '" + L + "') on a re-used formatter: text()/size() give " + verif::quoted(std::string(ff.text(), ff.size()), 120) + ", printf %" + L + " gives " + verif::quoted(wl, 120);
    if (ff.text()[ff.size()] != 0) return "float_formatter::text() is not NUL-terminated at size()";
    ff.format(F(0), 'g');
    if (ff.size() != 1 || ff.text()[0] != '0' || ff.text()[1] != 0) return "float_formatter::format(0, 'g') after a longer value gives " + verif::quoted(std::string(ff.text(), ff.size()));
    ST::float_formatter<F> fresh;
    fresh.format(v, L);
    if (fresh.size() != wl.size() || std::string(fresh.text(), fresh.size()) != wl || fresh.text()[fresh.size()] != 0)
        return "float_formatter::format(" + vt + ", '" + L + "') gives " + verif::quoted(std::string(fresh.text(), fresh.size()), 120) + ", printf %" + L + " gives " + verif::quoted(wl, 120);
    return std::string();
}

template <class F> std::string check_render_t(const RenderCase &rc, F v, RenderFacts *facts) {
    const double dv = (double)v;     // what printf receives for a float argument, too
    try {
        const std::string text = ref::c_printf_double(dv, kConv[rc.conv], rc.plus, rc.prec);
        if (facts) facts->len = text.size();
        const char pad = rc.padkind == 1 ? '0' : rc.padkind == 2 ? rc.padch : ' ';
        const std::string want = std::string(kCtxPreOut[rc.ctx & 3]) + ref::pad_number(text, rc.width, (ref::Align)rc.align, pad) + kCtxPostOut[rc.ctx & 3];
        const std::string fmt = std::string(kCtxPre[rc.ctx & 3]) + build_field(rc) + kCtxPost[rc.ctx & 3];
        verif::Exact<char> fz(fmt.data(), fmt.size(), true);
        if (rc.cplx) {
            // std::complex<F>: real part, '+', imaginary part, 'i' - each part rendered (and padded) like a lone value
            F im;
            if constexpr (std::is_same<F, float>::value) im = flt_from_bits((uint32_t)rc.bits2); else im = dbl_from_bits(rc.bits2);
            const std::string text2 = ref::c_printf_double((double)im, kConv[rc.conv], rc.plus, rc.prec);
            if (facts) facts->len = std::max(text.size(), text2.size());
            const std::string wantc = std::string(kCtxPreOut[rc.ctx & 3]) + ref::pad_number(text, rc.width, (ref::Align)rc.align, pad) + "+" +
                                      ref::pad_number(text2, rc.width, (ref::Align)rc.align, pad) + "i" + kCtxPostOut[rc.ctx & 3];
            const std::complex<F> z(v, im);
            ST::string gc = ST::format(fz.data(), z);
            if (!same_text(gc, wantc))
                return "ST::format(" + verif::quoted(fmt) + ", " + value_text(rc) + ") gives " + verif::quoted(str_of(gc), 160) + " (" + verif::unum(gc.size()) +
                       " bytes), the two printf renderings joined as <re>+<im>i are " + verif::quoted(wantc, 160) + " (" + verif::unum(wantc.size()) + " bytes)";
            ST::string g2 = ST::format(fz.data(), std::complex<F>(v, im));          // rvalue argument
            if (!same_text(g2, wantc)) return "ST::format(" + verif::quoted(fmt) + ", rvalue " + value_text(rc) + ") gives " + verif::quoted(str_of(g2), 160);
            return std::string();
        }
        ST::string got = ST::format(fz.data(), v);
        if (str_of(got) != want)
            return "ST::format(" + verif::quoted(fmt) + ", " + value_text(rc) + ") gives " + verif::quoted(str_of(got), 120) + " (" + verif::unum(got.size()) +
                   " bytes), printf rendering padded to the width is " + verif::quoted(want, 120) + " (" + verif::unum(want.size()) + " bytes)";
        if (got.c_str()[got.size()] != 0) return "ST::format result is not NUL-terminated";

        if (rc.letter >= 0) {
            const char L = kLetters[rc.letter];
            const std::string wl = ref::c_printf_double(dv, L, false, -1);
            ST::string a;
            const char *fn;
            if constexpr (std::is_same<F, float>::value) { a = ST::string::from_float(v, L); fn = "from_float("; }
            else { a = ST::string::from_double(v, L); fn = "from_double("; }
            if (str_of(a) != wl)
                return std::string(fn) + value_text(rc) + ", '" + L + "') gives " + verif::quoted(str_of(a), 120) + ", printf %" + L + " gives " + verif::quoted(wl, 120);
            if constexpr (std::is_same<F, double>::value) {
                ST::string b = ST::string::from_float(v, L);    // the from_float(double) overload
                if (str_of(b) != wl)
                    return std::string("from_float(") + value_text(rc) + ", '" + L + "') gives " + verif::quoted(str_of(b), 120) + ", printf %" + L + " gives " + verif::quoted(wl, 120);
            }
            const std::string wg = ref::c_printf_double(dv, 'g', false, -1);
            if (L == 'g') {      // default argument
                ST::string d0;
                if constexpr (std::is_same<F, float>::value) d0 = ST::string::from_float(v); else d0 = ST::string::from_double(v);
                if (str_of(d0) != wg) return "from_float/from_double(" + value_text(rc) + ") with the default format gives " + verif::quoted(str_of(d0)) + ", printf %g gives " + verif::quoted(wg);
            }
            {   // the remaining overload / conversion combinations: each renders the value it is given
                const std::string vt = value_text(rc);
                if constexpr (std::is_same<F, float>::value) {
                    if (!same_text(ST::string::from_double(v, L), wl)) return "from_double(" + vt + ", '" + L + "') gives " + verif::quoted(str_of(ST::string::from_double(v, L)), 120) + ", printf gives " + verif::quoted(wl, 120);
                    if (!same_text(ST::string::from_float((double)v, L), wl)) return "from_float((double)" + vt + ", '" + L + "') gives " + verif::quoted(str_of(ST::string::from_float((double)v, L)), 120) + ", printf gives " + verif::quoted(wl, 120);
                } else {
                    // a double that is not a float value must not be narrowed by from_float(double): wl above is the double's rendering.
                    // from_float((float)v) is the float's rendering
                    const float nf = (float)v;
                    const std::string wf = ref::c_printf_double((double)nf, L, false, -1);
                    if (!same_text(ST::string::from_float(nf, L), wf)) return "from_float((float)" + vt + ", '" + L + "') gives " + verif::quoted(str_of(ST::string::from_float(nf, L)), 120) + ", printf gives " + verif::quoted(wf, 120);
                }
                std::string why = check_float_formatter<F>(v, L, wl, vt);
                if (!why.empty()) return why;
                // unsupported letters
                const uint64_t hb = rc.bits * 0x9E3779B97F4A7C15ull;
                const char bad = kBadLetters[(hb >> 40) % sizeof kBadLetters];
                why = expect_bad_format([&] { if constexpr (std::is_same<F, float>::value) return str_of(ST::string::from_float(v, bad)); else return str_of(ST::string::from_double(v, bad)); }, bad, dv,
                                        std::is_same<F, float>::value ? "from_float(float)" : "from_double");
                if (!why.empty()) return why;
                why = expect_bad_format([&] { return str_of(ST::string::from_float(dv, bad)); }, bad, dv, "from_float(double)");
                if (!why.empty()) return why;
                why = expect_bad_format([&] { ST::float_formatter<F> f2; f2.format(v, bad); return std::string(f2.text(), f2.size()); }, bad, dv, "float_formatter::format");
                if (!why.empty()) return why;
                // the other ST::format entry points
                using namespace ST::literals;
                if (!same_text(ST::format(ST::check_validity, fz.data(), v), want)) return "ST::format(check_validity, " + verif::quoted(fmt) + ", " + vt + ") differs from ST::format(fmt, v): " + verif::quoted(str_of(ST::format(ST::check_validity, fz.data(), v)), 120);
                if (!same_text(ST::format(ST::assume_valid, fz.data(), v), want)) return "ST::format(assume_valid, " + verif::quoted(fmt) + ", " + vt + ") differs from ST::format(fmt, v)";
                if (!same_text(ST::format_latin_1(fz.data(), v), want)) return "ST::format_latin_1(" + verif::quoted(fmt) + ", " + vt + ") gives " + verif::quoted(str_of(ST::format_latin_1(fz.data(), v)), 120) + ", expected " + verif::quoted(want, 120);
                const std::string wgl = ref::c_printf_double(dv, 'g', false, -1);
                if (!same_text("{}"_stfmt(v), wgl)) return "\"{}\"_stfmt(" + vt + ") gives " + verif::quoted(str_of("{}"_stfmt(v))) + ", printf %g gives " + verif::quoted(wgl);
                const std::string wfl = ref::c_printf_double(dv, 'e', true, 3);
                if (!same_text("{+.3e}"_stfmt(v), wfl)) return "\"{+.3e}\"_stfmt(" + vt + ") gives " + verif::quoted(str_of("{+.3e}"_stfmt(v))) + ", printf %+.3e gives " + verif::quoted(wfl);
            }
            ST::string_stream ss;
            ss << v;
            std::string sg(ss.raw_buffer(), ss.size());
            if (sg != wg) return "string_stream << " + value_text(rc) + " gives " + verif::quoted(sg) + ", printf %g gives " + verif::quoted(wg);
            ST::string_stream s2;
            s2 << "[" << v << "]";
            std::string sg2(s2.raw_buffer(), s2.size());
            if (sg2 != "[" + wg + "]") return "string_stream << \"[\" << " + value_text(rc) + " << \"]\" gives " + verif::quoted(sg2);
        }
    } catch (...) {
        return "unexpected " + verif::describe_current_exception();
    }
    return std::string();
}

std::string check_render(const RenderCase &rc, RenderFacts *facts) {
    return rc.is_float ? check_render_t<float>(rc, flt_from_bits((uint32_t)rc.bits), facts) : check_render_t<double>(rc, dbl_from_bits(rc.bits), facts);
}

// directed encoding (0xFF ...), 22 bytes
void encode_render(const RenderCase &rc, uint8_t *o) {
    o[0] = 0xFF; o[1] = rc.is_float; for (int i = 0; i < 8; i++) o[2 + i] = (uint8_t)(rc.bits >> (8 * i));
    o[10] = (uint8_t)rc.conv; unsigned p = rc.prec < 0 ? 0xFFFF : (unsigned)rc.prec; o[11] = (uint8_t)p; o[12] = (uint8_t)(p >> 8);
    o[13] = rc.plus; o[14] = (uint8_t)rc.width; o[15] = (uint8_t)(rc.width >> 8); o[16] = (uint8_t)rc.align; o[17] = (uint8_t)rc.padkind;
    o[18] = (uint8_t)rc.padch; o[19] = (uint8_t)rc.order; o[20] = (uint8_t)rc.ctx; o[21] = (uint8_t)(rc.letter < 0 ? 0xFF : rc.letter);
    o[22] = rc.cplx; for (int i = 0; i < 8; i++) o[23 + i] = (uint8_t)(rc.bits2 >> (8 * i));
}
const size_t kRenderBytes = 31;      // the first 22 bytes are the original layout (saved inputs of that length decode as before: not complex)

bool is_subnormal(double d) { return d != 0 && std::fabs(d) < DBL_MIN; }
bool is_subnormal_f(float f) { return f != 0 && std::fabs(f) < FLT_MIN; }

// ---------------------------------------------------------------------------------------------
// directed tables
const std::vector<uint64_t> &double_table() {
    static const std::vector<uint64_t> tab = [] {
        std::vector<double> v;
        auto add3 = [&](double d) { v.push_back(d); v.push_back(std::nextafter(d, INFINITY)); v.push_back(std::nextafter(d, -INFINITY)); };
        const double simple[] = {0.0, 1.5, 3.14159, 16384.0, 0.0234, 1.0, 0.5, 2.5, 0.125, 0.375, 0.1, 0.3, 1.0 / 3, 2.0 / 3, 4.35, 0.045, 1e23, 9.999999e22,
                                 123456789012345678.0, 9007199254740993.0, 1e15 + 0.5, 999999.5, 99999.95, 0.00009999995, 0.0001, 0.00001, 1e-5, 123456.0, 1234567.0,
                                 9.5, 0.95, 0.995, 9.995, 1e16, 1e17, 4503599627370496.5, 1e21, 1e22, 5e-324, 1.7976931348623157e308, 2.2250738585072014e-308,
                                 2.2250738585072009e-308, 2.220446049250313e-16, 6.02214076e23, 299792458.0, 1e100, 1.23456789e-100, 255.0, 65536.0, 4294967296.0};
        for (double d : simple) v.push_back(d);
        v.push_back(INFINITY);
        v.push_back(DBL_MAX); v.push_back(DBL_MIN); v.push_back(std::numeric_limits<double>::denorm_min());
        add3(1.0); add3(DBL_MIN); add3(10.0);
        for (int k = -323; k <= 308; k++) { char b[16]; snprintf(b, sizeof b, "1e%d", k); add3(strtod(b, nullptr)); }
        for (int k = -1074; k <= 1023; k++) add3(std::ldexp(1.0, k));
        std::vector<uint64_t> o;
        for (double d : v) { o.push_back(bits_of(d)); o.push_back(bits_of(-d)); }
        const uint64_t nans[] = {0x7FF8000000000000ull, 0xFFF8000000000000ull, 0x7FF0000000000001ull, 0x7FFFFFFFFFFFFFFFull, 0xFFF0000000000001ull, 0x7FF4000000000000ull};
        for (uint64_t n : nans) o.push_back(n);
        std::sort(o.begin(), o.end());
        o.erase(std::unique(o.begin(), o.end()), o.end());
        return o;
    }();
    return tab;
}
const std::vector<uint32_t> &float_table() {
    static const std::vector<uint32_t> tab = [] {
        std::vector<float> v;
        auto add3 = [&](float d) { v.push_back(d); v.push_back(std::nextafterf(d, INFINITY)); v.push_back(std::nextafterf(d, -INFINITY)); };
        const float simple[] = {0.0f, 1.5f, 3.14159f, 16384.0f, 0.0234f, 1.0f, 0.5f, 0.1f, 1.6f, 16384.5f, 0.0078f, 999999.5f, 16777216.0f, 16777217.0f, 1e10f, 1e-10f, 0.0001f, 0.00001f};
        for (float d : simple) v.push_back(d);
        v.push_back(INFINITY); v.push_back(FLT_MAX); v.push_back(FLT_MIN); v.push_back(std::numeric_limits<float>::denorm_min());
        add3(1.0f); add3(FLT_MIN);
        for (int k = -45; k <= 38; k++) { char b[16]; snprintf(b, sizeof b, "1e%d", k); add3(strtof(b, nullptr)); }
        for (int k = -149; k <= 127; k++) add3(std::ldexp(1.0f, k));
        std::vector<uint32_t> o;
        for (float d : v) { o.push_back(bits_of(d)); o.push_back(bits_of(-d)); }
        const uint32_t nans[] = {0x7FC00000u, 0xFFC00000u, 0x7F800001u, 0x7FFFFFFFu, 0xFF800001u};
        for (uint32_t n : nans) o.push_back(n);
        std::sort(o.begin(), o.end());
        o.erase(std::unique(o.begin(), o.end()), o.end());
        return o;
    }();
    return tab;
}

const int kPrecTable[] = {0, 1, 6, 15, 17, 30, 60, 100, 400, 2, 3, 5, 7, 9, 16, 18, 20, 40, 54, 55, 56, 57, 58, 59, 61, 62, 63, 64, 65, 70, 99, 101, 200, 308, 309, 310, 399};

// ---------------------------------------------------------------------------------------------
// Parse direction
struct ParseFacts { size_t consumed = 0; bool range = false; bool special = false; };

// Four tiny texts whose parse yields each of the four flag combinations: used to put a conversion_result object into a known
// state before it is handed to another call ("re-use").
struct Primer { const char *text; size_t n; bool ok, full; };
const Primer kPrimers[4] = {{"", 0, false, true}, {"1", 1, true, true}, {" ", 1, false, false}, {"1 ", 2, true, false}};
const ST::string &primer_string(int p) {
    static const ST::string tab[4] = {ST::string::from_validated(kPrimers[0].text, kPrimers[0].n), ST::string::from_validated(kPrimers[1].text, kPrimers[1].n),
                                      ST::string::from_validated(kPrimers[2].text, kPrimers[2].n), ST::string::from_validated(kPrimers[3].text, kPrimers[3].n)};
    return tab[p & 3];
}
std::string flags_text(bool ok, bool full) { return std::string("ok=") + (ok ? "1" : "0") + " full_match=" + (full ? "1" : "0"); }
// bring `cr` into the state of primer p through a real library call (to_double for even `via`, to_float for odd)
bool prime(ST::conversion_result &cr, int p, int via, std::string &why) {
    const Primer &pr = kPrimers[p & 3];
    double got = (via & 1) ? (double)primer_string(p).to_float(cr) : primer_string(p).to_double(cr);
    if (cr.ok() != pr.ok || cr.full_match() != pr.full || got != (pr.ok ? 1.0 : 0.0)) {
        char tmp[64]; snprintf(tmp, sizeof tmp, "%.17g", got);
        why = std::string((via & 1) ? "to_float" : "to_double") + "(result) of " + verif::quoted(std::string(pr.text, pr.n)) + " gives " + tmp + " " + flags_text(cr.ok(), cr.full_match()) + ", expected " +
              (pr.ok ? "1 " : "0 ") + flags_text(pr.ok, pr.full);
        return false;
    }
    return true;
}

enum { kRoutes = 10 };
const char *const kRouteNames[kRoutes] = {"route:from_validated", "route:from_validated(char8_t)", "route:ctor(char8_t*)", "route:ctor(std::u8string)", "route:ctor(string_view)",
                                          "route:from_utf16(ASCII)", "route:substr-of-longer", "route:moved-into", "route:default-constructed", "route:operator+="};
// The subject string, built through different public constructors (all hold exactly the bytes given).
ST::string make_subject(const char *p, size_t n, int route, int *used) {
    *used = route;
    switch (route) {
    case 1: return ST::string::from_validated(reinterpret_cast<const char8_t *>(p), n);
    case 2: return ST::string(reinterpret_cast<const char8_t *>(p), n, ST::assume_valid);
    case 3: return ST::string(std::u8string(reinterpret_cast<const char8_t *>(p), n), ST::assume_valid);
    case 4: return ST::string(std::string_view(p, n), ST::assume_valid);
    case 5: {
        bool ascii = true; for (size_t i = 0; i < n; i++) if ((unsigned char)p[i] >= 0x80) ascii = false;
        if (!ascii) break;
        std::u16string w(n, u'\0'); for (size_t i = 0; i < n; i++) w[i] = (char16_t)(unsigned char)p[i];
        return ST::string::from_utf16(w.data(), n);
    }
    case 6: {       // digits directly before and behind the part that is cut out
        ST::string big = ST::string::from_validated("9", 1) + ST::string::from_validated(p, n) + ST::string::from_validated("9e5", 3);
        return big.substr(1, n);
    }
    case 7: { ST::string tmp = ST::string::from_validated(p, n); ST::string moved(std::move(tmp)); return moved; }
    case 8: if (n == 0) return ST::string(); break;
    case 9: { ST::string acc; size_t half = n / 2; acc += ST::string::from_validated(p, half); acc += ST::string::from_validated(p + half, n - half); return acc; }
    default: break;
    }
    *used = 0;
    return ST::string::from_validated(p, n);
}

// reuse: 0 = one (member, earlier state) pair chosen by a hash of the text; 1 = both members x all four earlier states + a chain
std::string check_parse(const uint8_t *bytes, size_t n, ParseFacts *facts, int route = 0, int reuse = 0, int *route_used = nullptr) {
    verif::Exact<char> src(reinterpret_cast<const char *>(bytes), n);            // for the library: exact size, no terminator
    verif::Exact<char> z(reinterpret_cast<const char *>(bytes), n, true);        // for the C library: same bytes + NUL
    try {
        const ref::ParsedF<double> pd = ref::c_strtod(z.data());
        const ref::ParsedF<float> pf = ref::c_strtof(z.data());
        if (facts) {
            facts->consumed = pd.consumed; facts->range = pd.range || pf.range;
            facts->special = !std::isfinite(pd.value) || is_subnormal(pd.value) || !std::isfinite(pf.value) || is_subnormal_f(pf.value);
        }
        int used = 0;
        ST::string s = make_subject(src.data(), n, route, &used);
        if (route_used) *route_used = used;
        if (s.size() != n || (n && memcmp(s.c_str(), src.data(), n) != 0)) return std::string("subject built by ") + kRouteNames[used] + " does not hold the given bytes";
        char tmp[300];
        {
            ST::conversion_result cr;
            verif::pre_errno();
            double d = s.to_double(cr);
            if (!ref::same_double(d, pd.value) || cr.ok() != pd.ok(n) || cr.full_match() != pd.full_match(n)) {
                snprintf(tmp, sizeof tmp, "to_double(result) gives %.17g (bits %016llX) ok=%d full_match=%d; strtod returns %.17g (bits %016llX) consuming %zu of %zu bytes, so ok=%d full_match=%d",
                         d, (unsigned long long)bits_of(d), cr.ok(), cr.full_match(), pd.value, (unsigned long long)bits_of(pd.value), pd.consumed, n, pd.ok(n), pd.full_match(n));
                return tmp;
            }
            double d2 = s.to_double();
            if (!ref::same_double(d2, pd.value)) { snprintf(tmp, sizeof tmp, "to_double() gives %.17g, strtod returns %.17g", d2, pd.value); return tmp; }
        }
        {
            ST::conversion_result cr;
            verif::pre_errno();
            float f = s.to_float(cr);
            if (!ref::same_float(f, pf.value) || cr.ok() != pf.ok(n) || cr.full_match() != pf.full_match(n)) {
                snprintf(tmp, sizeof tmp, "to_float(result) gives %.9g (bits %08X) ok=%d full_match=%d; strtof returns %.9g (bits %08X) consuming %zu of %zu bytes, so ok=%d full_match=%d",
                         (double)f, bits_of(f), cr.ok(), cr.full_match(), (double)pf.value, bits_of(pf.value), pf.consumed, n, pf.ok(n), pf.full_match(n));
                return tmp;
            }
            float f2 = s.to_float();
            if (!ref::same_float(f2, pf.value)) { snprintf(tmp, sizeof tmp, "to_float() gives %.9g, strtof returns %.9g", (double)f2, (double)pf.value); return tmp; }
        }
        // ---- one conversion_result object used for several calls: each call sets the flags afresh
        std::string why;
        auto call = [&](int k, ST::conversion_result &cr) -> bool {     // member k (0 to_double, 1 to_float) on the subject; true if as expected
            if (k == 0) { double d = s.to_double(cr); return ref::same_double(d, pd.value) && cr.ok() == pd.ok(n) && cr.full_match() == pd.full_match(n); }
            float f = s.to_float(cr); return ref::same_float(f, pf.value) && cr.ok() == pf.ok(n) && cr.full_match() == pf.full_match(n);
        };
        auto reuse_pair = [&](int k, int p, int via) -> bool {
            ST::conversion_result cr;
            if (!prime(cr, p, via, why)) return false;
            if (!call(k, cr)) {
                why = std::string(k == 0 ? "to_double" : "to_float") + "(result) with a conversion_result last used on " + verif::quoted(std::string(kPrimers[p].text, kPrimers[p].n)) + " (" +
                      flags_text(kPrimers[p].ok, kPrimers[p].full) + ") gives " + flags_text(cr.ok(), cr.full_match()) + " or a different value; a fresh object gives " +
                      (k == 0 ? flags_text(pd.ok(n), pd.full_match(n)) : flags_text(pf.ok(n), pf.full_match(n)));
                return false;
            }
            // and the subject's flags must not survive a later call on the primer text
            if (!prime(cr, p, via + 1, why)) { why += " (conversion_result last used on the text under test)"; return false; }
            return true;
        };
        if (reuse) {
            for (int k = 0; k < 2; k++) for (int p = 0; p < 4; p++) if (!reuse_pair(k, p, k + p)) return why;
            ST::conversion_result chain;
            for (int i = 0; i < 4; i++) {
                if (!call(i & 1, chain)) return std::string(i & 1 ? "to_float" : "to_double") + " in a chain of calls sharing one conversion_result gives " + flags_text(chain.ok(), chain.full_match()) + " or a different value";
                if (!prime(chain, (i + (int)n) & 3, i, why)) return why + " (in a chain of calls sharing one conversion_result)";
            }
        } else {
            uint32_t h = 2166136261u;
            for (size_t i = 0; i < n; i++) h = (h ^ bytes[i]) * 16777619u;
            h ^= h >> 15;
            if (!reuse_pair((int)(h & 1), (int)((h >> 1) & 3), (int)((h >> 3) & 1))) return why;
        }
    } catch (...) {
        return "unexpected " + verif::describe_current_exception();
    }
    return std::string();
}

std::string render_parse(const uint8_t *bytes, size_t n) {
    verif::Exact<char> z(reinterpret_cast<const char *>(bytes), n, true);
    ref::ParsedF<double> pd = ref::c_strtod(z.data());
    ref::ParsedF<float> pf = ref::c_strtof(z.data());
    char tmp[200];
    snprintf(tmp, sizeof tmp, " (%zu bytes) -> strtod %.17g%s, strtof %.9g%s, consumed %zu => ok=%d full_match=%d; to_double/to_float with and without result compared",
             n, pd.value, pd.range ? " (ERANGE)" : "", (double)pf.value, pf.range ? " (ERANGE)" : "", pd.consumed, pd.consumed != 0, pd.consumed == n);
    return "C13 parse text=" + verif::quoted(std::string((const char *)bytes, n)) + tmp;
}

int run_parse_case(Case &c, const std::vector<uint8_t> &text, int route = 0) {
    ParseFacts pf;
    if (c.want_text) c.text = render_parse(text.data(), text.size());
    const size_t n = text.size();
    int used = 0;
    std::string why = check_parse(text.data(), n, &pf, route, n <= 512 ? 1 : 0, &used);
    c.label(n == 0 ? "parse:empty" : pf.consumed == 0 ? "parse:nothing-consumed" : pf.consumed == n ? "parse:full-match" : "parse:partial-match");
    if (pf.range) c.label("parse:out-of-range");
    if (pf.special && pf.consumed) c.label("parse:nonfinite-or-subnormal");
    if (std::find(text.begin(), text.end(), 0) != text.end()) c.label("parse:embedded-NUL");
    if (n > 256) c.label(n >= 4096 ? "parse:text>=4096 bytes" : "parse:text 257..4095 bytes");
    if (used) c.label(kRouteNames[used]);
    c.nontrivial = pf.consumed > 0 && (pf.consumed < n || pf.special || pf.range);
    if (c.want_text && used) c.text += std::string("; subject ") + kRouteNames[used];
    if (!why.empty()) return c.fail(why);
    return verif::CASE_OK;
}

int run_render_case(Case &c, const RenderCase &rc) {
    RenderFacts rf;
    if (c.want_text) c.text = render_render(rc);
    std::string why = check_render(rc, &rf);
    const double dv = rc.value();
    c.label(rc.cplx ? (rc.is_float ? "value:complex<float>" : "value:complex<double>") : rc.is_float ? "value:float" : "value:double");
    const bool sub = rc.is_float ? is_subnormal_f(flt_from_bits((uint32_t)rc.bits)) : is_subnormal(dv);
    c.label(std::isnan(dv) ? "class:nan" : std::isinf(dv) ? "class:inf" : dv == 0 ? "class:zero" : sub ? "class:subnormal" : "class:normal");
    static const char *const cl[] = {"conv:default", "conv:f", "conv:e", "conv:E"};
    c.label(cl[rc.conv]);
    c.label(rc.prec < 0 ? "prec:absent" : rc.prec == 0 ? "prec:0" : rc.prec <= 17 ? "prec:1..17" : rc.prec < 64 ? "prec:18..63" : "prec:64..400");
    if (rc.plus) c.label("flag:+");
    c.label(rc.width == 0 ? "width:none" : (size_t)rc.width <= rf.len ? "width:<=len" : "width:>len");
    c.label(rc.align == 0 ? "align:default" : rc.align == 1 ? "align:left" : "align:right");
    c.label(rc.padkind == 0 ? "pad:none" : rc.padkind == 1 ? "pad:0-flag" : "pad:_char");
    c.label(rf.len >= 64 ? "render:>=64 chars" : rf.len > 24 ? "render:25..63 chars" : "render:<=24 chars");
    c.nontrivial = rf.len > 24 || !std::isfinite(dv) || sub;
    if (!why.empty()) return c.fail(why);
    return verif::CASE_OK;
}

// ---------------------------------------------------------------------------------------------
// string_stream << float/double and ST::format of them when the output already holds `fill` bytes: every fill level relative to
// the in-object capacity (ST_STACK_STRING_SIZE) and its doublings; further appends follow; compared with a byte model.
struct StreamCase {
    bool is_float = false;
    uint64_t bits = 0;
    size_t fill = 0;     // 0..5000
    int pre = 0;         // how the stream reached `fill` bytes
    int tail = 0;        // what follows the number
    int conv = 0;        // notation of the ST::format part
    int prec = -1;       //   and its precision (-1 absent)
    double value() const { return is_float ? (double)flt_from_bits((uint32_t)bits) : dbl_from_bits(bits); }
};
const size_t kMaxFill = 5000;
const char *const kPreNames[7] = {"pre:one-append", "pre:many-small-appends", "pre:grown-then-truncated", "pre:overfilled-then-erased", "pre:move-constructed", "pre:move-assigned-over-grown",
                                  "pre:grown-then-emptied-then-refilled"};
inline char pattern_byte(size_t i) { return "abcdefghijklmnopqrstuvwxyzABCDEFGHIJKLMNOPQRSTUVWXYZ_-.,:;!?*/~@"[(i * 7 + i / 64) & 63]; }

void build_prefill(ST::string_stream &a, const std::string &prefix, int pre) {
    const size_t fill = prefix.size();
    switch (pre) {
    case 1: {
        size_t pos = 0; unsigned step = 1;
        while (pos < fill) {
            size_t len = std::min<size_t>(1 + (step * 37) % 97, fill - pos);
            switch (step & 3) {
            case 0: a.append(prefix.data() + pos, len); break;
            case 1: { std::string piece(prefix, pos, len); a << piece.c_str(); break; }
            case 2: a << ST::string::from_validated(prefix.data() + pos, len); break;
            default: for (size_t i = 0; i < len; i++) a << prefix[pos + i]; break;
            }
            pos += len; step++;
        }
        break;
    }
    case 2: a.append(prefix.data(), fill); a.append_char('J', fill / 2 + 300); a.truncate(fill); break;
    case 3: a.append(prefix.data(), fill); a.append_char('J', 77); a.erase(77); break;
    case 6: a.append_char('J', 5000); a.truncate(); a.append(prefix.data(), fill); break;
    default: a.append(prefix.data(), fill); break;
    }
}

std::string first_difference(const char *got, size_t gn, const std::string &expect) {
    size_t d = 0; const size_t m = std::min(gn, expect.size());
    while (d < m && got[d] == expect[d]) d++;
    return "size " + verif::unum(gn) + ", expected " + verif::unum(expect.size()) + "; first difference at byte " + verif::unum(d) + ": " + verif::quoted(std::string(got + d, std::min<size_t>(24, gn - d))) +
           " vs model " + verif::quoted(expect.substr(d, 24));
}

template <class F> std::string check_stream_t(const StreamCase &sc, F v) {
    const double dv = (double)v;
    try {
        std::string prefix(sc.fill, ' ');
        for (size_t i = 0; i < sc.fill; i++) prefix[i] = pattern_byte(i);
        const std::string num = ref::c_printf_double(dv, 'g', false, -1);
        ST::string_stream a;
        build_prefill(a, prefix, sc.pre);
        std::optional<ST::string_stream> other;
        ST::string_stream *ss = &a;
        if (sc.pre == 4) { other.emplace(std::move(a)); ss = &*other; }
        else if (sc.pre == 5) { other.emplace(); other->append_char('J', 3000); *other = std::move(a); ss = &*other; }
        if (ss->size() != sc.fill || (sc.fill && memcmp(ss->raw_buffer(), prefix.data(), sc.fill) != 0))
            return std::string("string_stream does not hold the ") + verif::unum(sc.fill) + " bytes appended before the number (" + kPreNames[sc.pre] + ")";
        std::string expect = prefix + num;
        *ss << v;
        // the second value of tail 2: the other floating type
        const double second = -dv * 0.3333333333333333;
        const float secondf = (float)second;
        switch (sc.tail) {
        case 1: *ss << "]"; expect += "]"; break;
        case 2: if constexpr (std::is_same<F, float>::value) { *ss << '|' << second << '.'; expect += "|" + ref::c_printf_double(second, 'g', false, -1) + "."; }
                else { *ss << '|' << secondf << '.'; expect += "|" + ref::c_printf_double((double)secondf, 'g', false, -1) + "."; }
                break;
        case 3: ss->append_char('#', 300); expect += std::string(300, '#'); break;
        case 4: for (int i = 0; i < 3; i++) { *ss << v; expect += num; } break;
        default: break;
        }
        if (ss->size() != expect.size() || memcmp(ss->raw_buffer(), expect.data(), expect.size()) != 0)
            return std::string("string_stream holding ") + verif::unum(sc.fill) + " bytes (" + kPreNames[sc.pre] + ") << " + (sc.is_float ? "float " : "double ") + num + " + tail " + verif::num(sc.tail) + ": " +
                   first_difference(ss->raw_buffer(), ss->size(), expect);
        ST::string out = ss->to_string();
        if (!same_text(out, expect)) return "string_stream::to_string() differs from the stream's own bytes after << " + num + " at fill " + verif::unum(sc.fill);

        // ST::format writes through the same kind of buffer: `fill` literal bytes, then the field, then more text
        const std::string field = std::string("{") + (sc.conv ? std::string(1, kConv[sc.conv]) : std::string()) + (sc.prec >= 0 ? "." + std::to_string(sc.prec) : std::string()) + "}";
        const std::string ftext = ref::c_printf_double(dv, kConv[sc.conv], false, sc.prec);
        const std::string fmt = prefix + field + (sc.tail == 1 ? "]" : sc.tail == 4 ? field + field : "");
        const std::string fexpect = prefix + ftext + (sc.tail == 1 ? "]" : sc.tail == 4 ? ftext + ftext : "");
        ST::string f = sc.tail == 4 ? ST::format(fmt.c_str(), v, v, v) : ST::format(fmt.c_str(), v);
        if (!same_text(f, fexpect))
            return std::string("ST::format(<") + verif::unum(sc.fill) + " literal bytes>" + field + "..., " + (sc.is_float ? "float " : "double ") + num + "): " + first_difference(f.c_str(), f.size(), fexpect);
    } catch (...) {
        return "unexpected " + verif::describe_current_exception();
    }
    return std::string();
}
std::string check_stream(const StreamCase &sc) {
    return sc.is_float ? check_stream_t<float>(sc, flt_from_bits((uint32_t)sc.bits)) : check_stream_t<double>(sc, dbl_from_bits(sc.bits));
}
std::string render_stream(const StreamCase &sc) {
    char tmp[64]; snprintf(tmp, sizeof tmp, sc.is_float ? "float %.9g" : "double %.17g", sc.value());
    return std::string("C13 stream: string_stream with ") + verif::unum(sc.fill) + " bytes (" + kPreNames[sc.pre] + ") << " + tmp + ", tail " + verif::num(sc.tail) +
           "; bytes compared with a model; ST::format with " + verif::unum(sc.fill) + " literal bytes before {" + (sc.conv ? std::string(1, kConv[sc.conv]) : std::string()) +
           (sc.prec >= 0 ? "." + std::to_string(sc.prec) : std::string()) + "}";
}
const size_t kStreamBytes = 17;
void encode_stream(const StreamCase &sc, uint8_t *o) {
    o[0] = 0xFD; o[1] = sc.is_float; for (int i = 0; i < 8; i++) o[2 + i] = (uint8_t)(sc.bits >> (8 * i));
    o[10] = (uint8_t)sc.fill; o[11] = (uint8_t)(sc.fill >> 8); o[12] = (uint8_t)sc.pre; o[13] = (uint8_t)sc.tail; o[14] = (uint8_t)sc.conv;
    unsigned p = sc.prec < 0 ? 0xFFFF : (unsigned)sc.prec; o[15] = (uint8_t)p; o[16] = (uint8_t)(p >> 8);
}
void stream_boundary(const StreamCase &sc, bool &straddles, bool &ends_on) {
    const size_t len = ref::c_printf_double(sc.value(), 'g', false, -1).size();
    const size_t flen = ref::c_printf_double(sc.value(), kConv[sc.conv], false, sc.prec).size();
    straddles = ends_on = false;
    for (size_t cap = ST_STACK_STRING_SIZE; cap <= 16384; cap *= 2) {
        if (sc.fill < cap && (sc.fill + len > cap || sc.fill + flen > cap)) straddles = true;
        if (sc.fill + len == cap || sc.fill + flen == cap) ends_on = true;
    }
}
int run_stream_case(Case &c, const StreamCase &sc) {
    if (c.want_text) c.text = render_stream(sc);
    bool straddles, ends_on; stream_boundary(sc, straddles, ends_on);
    c.label("stream:prefilled");
    c.label(sc.is_float ? "value:float" : "value:double");
    c.label(kPreNames[sc.pre]);
    c.label(sc.fill == 0 ? "fill:0" : sc.fill < ST_STACK_STRING_SIZE ? "fill:in-object" : sc.fill < 1024 ? "fill:256..1023" : "fill:1024..5000");
    if (straddles) c.label("stream:number-straddles-capacity-step");
    if (ends_on) c.label("stream:number-ends-on-capacity-step");
    c.nontrivial = straddles || ends_on || sc.fill >= ST_STACK_STRING_SIZE;
    std::string why = check_stream(sc);
    return why.empty() ? verif::CASE_OK : c.fail(why);
}

const char kFloatAlphabet[] = {'0', '1', '2', '3', '4', '5', '6', '7', '8', '9', '0', '1', '9', '5', '.', '.', 'e', 'E', '+', '-', '-', 'x', 'X', 'p', 'P', 'n', 'a', 'N', 'A',
                               'i', 'f', 'I', 'F', 't', 'y', '(', ')', ' ', ' ', '\t', '\n', '\0', (char)0x80, (char)0xFF, ',', '_', 'd', 'c'};
const char kSpaces[] = {' ', '\t', '\n', '\v', '\f', '\r'};
const uint8_t kTails[] = {0, ' ', 'z', '.', 0x80, 0xFF, '-', 'x', 'e', 'E', '+', '9', '\n', 'f', 'p', ',', 'e', 'n'};
const char *const kWords[] = {"inf", "INF", "Infinity", "infinity", "INFINITY", "infinit", "in", "nan", "NaN", "NAN", "nan()", "nan(123)", "nan(0x7ff)", "nan(abc_1)", "nan(",
                              "nan(1 2)", "na", "0x1p0", "0x1.8p3", "0X1.FFFFFFFFFFFFFP1023", "0x1p-1074", "0x1p-1075", "0x.8p1", "0x1p1024", "0x", "0x.", "0xp1", "0x1p", "0x1p+",
                              "1e", "1e+", "1e-", ".e1", ".", "1.", ".5", "1.e2", "1e400", "1e-400", "-1e400", "1e308", "1.8e308", "4.9e-324", "2.4e-324", "2.5e-324", "3.4028235e38",
                              "3.4028236e38", "1e39", "1e-46", "7e-46", "1.17549435e-38", "0e999999999999", "1e99999999999999999999", "1e-99999999999999999999", "1d5", "1,5", "1_000"};

}  // namespace

int verif_case(const uint8_t *data, size_t size, Case &c) {
    // the thread's rounding direction as an earlier computation may have left it: printf / strtod - the oracles - and the library see the same one
    struct RoundGuard { RoundGuard() { static const int m[4] = {FE_TONEAREST, FE_UPWARD, FE_DOWNWARD, FE_TOWARDZERO}; fesetround(m[verif::g_round_pre & 3]); } ~RoundGuard() { fesetround(FE_TONEAREST); } } round_guard;
    verif::Reader r(data, size, c);
    const uint8_t mode = r.u8();

    if (mode == 0xFF) {                                    // directed render (enumerator failures, seeds)
        RenderCase rc;
        rc.is_float = r.u8() & 1; rc.bits = r.bits64(); if (rc.is_float) rc.bits &= 0xFFFFFFFFull;
        rc.conv = r.u8() & 3; unsigned p = r.u8(); p |= (unsigned)r.u8() << 8; rc.prec = p > 400 ? -1 : (int)p;
        rc.plus = r.u8() & 1; unsigned w = r.u8(); w |= (unsigned)r.u8() << 8; rc.width = w > 1200 ? 1200 : (int)w;
        rc.align = r.u8() % 3; rc.padkind = r.u8() % 3; uint8_t pc = r.u8() & 0x7F; rc.padch = pc ? (char)pc : '*';
        rc.order = r.u8(); rc.ctx = r.u8() & 3; uint8_t l = r.u8(); rc.letter = l == 0xFF ? -1 : l % 6;
        rc.cplx = r.u8() & 1; rc.bits2 = r.bits64(); if (rc.is_float) rc.bits2 &= 0xFFFFFFFFull;
        if (!rc.cplx) rc.bits2 = 0;
        c.label("directed-render");
        return run_render_case(c, rc);
    }
    if (mode == 0xFE) {                                    // directed parse: the text itself
        std::vector<uint8_t> text;
        while (!r.exhausted()) text.push_back(r.u8());
        c.label("directed-parse");
        return run_parse_case(c, text);
    }

    if (mode == 0xFD) {                                    // directed stream case
        StreamCase sc;
        sc.is_float = r.u8() & 1; sc.bits = r.bits64(); if (sc.is_float) sc.bits &= 0xFFFFFFFFull;
        unsigned f = r.u8(); f |= (unsigned)r.u8() << 8; sc.fill = f > kMaxFill ? kMaxFill : f; sc.pre = r.u8() % 7; sc.tail = r.u8() % 5; sc.conv = r.u8() & 3;
        unsigned p = r.u8(); p |= (unsigned)r.u8() << 8; sc.prec = p > 400 ? -1 : (int)p;
        c.label("directed-stream");
        return run_stream_case(c, sc);
    }

    // The upper five bits of the mode byte select the classes added later; 0..19 and 28..31 keep the original two directions.
    const unsigned cls = mode >> 3;
    const bool complex_class = cls >= 20 && cls <= 22;
    if (cls >= 23 && cls <= 25) {
        // ------------------------------------------------------------------ number into pre-filled output
        StreamCase sc;
        sc.is_float = r.flag();
        sc.pre = (int)r.idx(7);
        sc.tail = (int)r.idx(5);
        switch (r.idx(4)) {
        case 0: { static const double vals[] = {0.0, 1.5, -1.5, 3.14159, -DBL_MAX, DBL_MAX, -FLT_MAX, 1e100, -1e-100, 123456.0, 1234567.0, -0.0001, 1e-5, INFINITY, -INFINITY, NAN, 5e-324, -1.17549435e-38, 0.1, -2.5e10};
                  double d = r.pick(vals); sc.bits = sc.is_float ? bits_of((float)d) : bits_of(d); break; }
        case 1: if (sc.is_float) { const auto &t = float_table(); sc.bits = t[r.idx(t.size())]; } else { const auto &t = double_table(); sc.bits = t[r.idx(t.size())]; } break;
        default: sc.bits = sc.is_float ? r.bits32() : r.bits64(); break;
        }
        sc.conv = (int)r.idx(4);
        switch (r.idx(4)) { case 1: sc.prec = r.pick(kPrecTable); break; case 2: sc.prec = (int)r.range(0, 20); break; default: sc.prec = -1; }
        const size_t len = ref::c_printf_double(sc.value(), 'g', false, -1).size();
        const size_t flen = ref::c_printf_double(sc.value(), kConv[sc.conv], false, sc.prec).size();
        if (r.chance(64)) sc.fill = (size_t)r.range(0, kMaxFill);
        else {                                              // next to a capacity step, measured by the stream text or by the ST::format text
            static const uint16_t steps[] = {256, 512, 1024, 2048, 4096, 256, 256, 512};
            const size_t cap = r.pick(steps);
            const size_t l = r.flag() ? flen : len;
            const size_t back = (size_t)r.range(0, 3) == 0 ? (size_t)r.range(0, l + 3) : l + (size_t)r.range(0, 3) - 1;   // often: ends exactly on / one beside the step
            sc.fill = cap + 2 - std::min(back, cap + 2);
        }
        return run_stream_case(c, sc);
    }
    if (cls >= 26 && cls <= 27) {
        // ------------------------------------------------------------------ long texts (several KB), parse direction
        static const uint16_t runs[] = {0, 1, 255, 256, 257, 1000, 4095, 4096, 5000, 64, 300, 2048, 38, 39, 308, 309, 324, 400};
        std::vector<uint8_t> text;
        c.label("text:long");
        const unsigned shape = (unsigned)r.range(0, 5);
        if (shape != 5) { size_t nws = r.pick(runs); if (shape != 0) nws &= 1; for (size_t i = 0; i < nws; i++) text.push_back((uint8_t)" \t\n\v\f\r"[(i * 5 + nws) % 6]); }
        switch (r.range(0, 2)) { case 1: text.push_back('-'); break; case 2: text.push_back('+'); break; default: break; }
        const bool hex = shape == 4;
        if (hex) { text.push_back('0'); text.push_back(r.flag() ? 'X' : 'x'); }
        auto digits = [&](size_t count, uint8_t seed) { for (size_t i = 0; i < count; i++) text.push_back(hex ? (uint8_t)"0123456789abcdefABCDEF"[(i * 7 + seed) % 22] : (uint8_t)('0' + (i * 7 + seed) % 10)); };
        switch (shape) {
        case 0: digits((size_t)r.range(0, 20), r.u8()); break;                                  // long whitespace, short number
        case 1: text.insert(text.end(), r.pick(runs), (uint8_t)'0'); digits((size_t)r.range(0, 20), r.u8()); break;          // leading zeros
        case 2: text.push_back((uint8_t)('1' + r.range(0, 8))); text.insert(text.end(), r.pick(runs), (uint8_t)'0'); break;   // 1 followed by zeros: overflow to infinity at 39 / 309
        case 3: text.push_back('0'); text.push_back('.'); text.insert(text.end(), r.pick(runs), (uint8_t)'0'); digits((size_t)r.range(1, 20), r.u8()); break;   // underflow
        case 4: digits(r.pick(runs), r.u8()); break;
        default: digits(r.pick(runs), r.u8()); break;                                           // a long digit run
        }
        if (r.flag()) { text.push_back('.'); digits(r.flag() ? r.pick(runs) : (size_t)r.range(0, 20), r.u8()); }
        if (r.flag()) {
            text.push_back(hex ? 'p' : 'e');
            switch (r.range(0, 2)) { case 1: text.push_back('-'); break; case 2: text.push_back('+'); break; default: break; }
            if (r.chance(32)) text.insert(text.end(), r.pick(runs), (uint8_t)'0');               // zero-padded exponent
            std::string es = std::to_string(r.pick(runs)); text.insert(text.end(), es.begin(), es.end());
        }
        if (r.chance(64)) { text.push_back(r.pick(kTails)); size_t nd = r.pick(runs); for (size_t i = 0; i < nd; i++) text.push_back((uint8_t)('0' + (i % 10))); }
        return run_parse_case(c, text, (int)r.idx(kRoutes));
    }

    if ((mode & 1) == 0 || complex_class) {
        // ------------------------------------------------------------------ render direction
        RenderCase rc;
        rc.is_float = r.flag();
        const unsigned src = (mode >> 1) & 3;
        if (src == 0) {                                    // simple decimals m * 10^k, and the special values
            static const int8_t ks[] = {0, 1, -1, 2, -2, 3, -3, 4, -4, 5, -5, 6, -6, 8, -8, 15, -15, 22, -22, 37, -37, 38, -44};
            static const double specials[] = {0.0, INFINITY, NAN, DBL_MAX, DBL_MIN, 4.9406564584124654e-324, (double)FLT_MAX, (double)FLT_MIN, 1.401298464324817e-45, 1e100, 1e-100};
            int m = (int)r.range(0, 1000); bool neg = r.flag(); int k = r.pick(ks);
            double d = m * std::pow(10.0, k);
            if (r.chance(64)) d = r.pick(specials);
            if (neg) d = -d;
            rc.bits = rc.is_float ? bits_of((float)d) : bits_of(d);
            c.label("source:simple-decimal-or-special");
        } else if (src == 1) {
            if (rc.is_float) { const auto &t = float_table(); rc.bits = t[r.idx(t.size())]; }
            else { const auto &t = double_table(); rc.bits = t[r.idx(t.size())]; }
            c.label("source:directed-table");
        } else if (src == 2) {
            rc.bits = rc.is_float ? r.bits32() : r.bits64();
            c.label("source:random-bits");
        } else {                                           // random mantissa, chosen exponent class
            uint64_t b = r.bits64();
            if (rc.is_float) {
                static const uint8_t ex[] = {127, 0, 255, 1, 254, 126, 128, 150, 104, 200, 50};
                rc.bits = ((uint32_t)b & 0x807FFFFFu) | ((uint32_t)r.pick(ex) << 23);
                if ((rc.bits & 0x7F800000u) == 0x7F800000u && (b >> 40 & 1)) rc.bits &= 0xFF800000u;       // half of the all-ones exponents: infinity
            } else {
                static const uint16_t ex[] = {1023, 0, 2047, 1, 2046, 1022, 1024, 1075, 971, 1500, 500, 1356, 690};
                rc.bits = (b & 0x800FFFFFFFFFFFFFull) | ((uint64_t)r.pick(ex) << 52);
                if ((rc.bits & 0x7FF0000000000000ull) == 0x7FF0000000000000ull && (b >> 40 & 1)) rc.bits &= 0xFFF0000000000000ull;
            }
            c.label("source:exponent-class");
        }
        rc.conv = (int)r.idx(4);
        switch (r.idx(4)) { case 1: rc.prec = r.pick(kPrecTable); break; case 2: rc.prec = (int)r.range(0, 400); break; case 3: rc.prec = (int)r.range(0, 20); break; default: rc.prec = -1; }
        rc.plus = r.flag();
        const unsigned wk = (unsigned)r.idx(9);
        rc.align = (int)r.idx(3);
        rc.padkind = (int)r.idx(3);
        rc.padch = r.pick(kPadChars);
        rc.order = (unsigned)r.u8();
        rc.ctx = (int)r.idx(4);
        rc.letter = (int)r.idx(6);
        unsigned wrand = (unsigned)r.range(1, 300);
        const size_t len = ref::c_printf_double(rc.value(), kConv[rc.conv], rc.plus, rc.prec).size();
        switch (wk) {
        case 1: rc.width = (int)len - 1; break; case 2: rc.width = (int)len; break; case 3: rc.width = (int)len + 1; break; case 4: rc.width = (int)len + 5; break;
        case 5: rc.width = 40; break; case 6: rc.width = 300; break; case 7: rc.width = (int)wrand; break; case 8: rc.width = (int)len + 17; break; default: rc.width = 0;
        }
        if (rc.width < 0) rc.width = 0;
        if (rc.width > 1200) rc.width = 1200;
        if (complex_class) {                                // imaginary part: special, table or random, read after everything else
            rc.cplx = true; rc.letter = -1;
            switch (r.idx(3)) {
            case 0: { static const double ims[] = {0.0, -0.0, 1.0, -1.0, 1.5, INFINITY, -INFINITY, NAN, DBL_MAX, -DBL_MAX, 1e100, -1e-100, 5e-324, 0.1, 1e22, 123456.0};
                      double d = r.pick(ims); rc.bits2 = rc.is_float ? bits_of((float)d) : bits_of(d); break; }
            case 1: if (rc.is_float) { const auto &t = float_table(); rc.bits2 = t[r.idx(t.size())]; } else { const auto &t = double_table(); rc.bits2 = t[r.idx(t.size())]; } break;
            default: rc.bits2 = rc.is_float ? r.bits32() : r.bits64(); break;
            }
        }
        return run_render_case(c, rc);
    }

    // ---------------------------------------------------------------------- parse direction
    const unsigned sub = (mode >> 1) & 3;
    std::vector<uint8_t> text;
    auto decorate_front = [&]() {
        unsigned nsp = (unsigned)r.range(0, 3); if (nsp == 3) nsp = 0;
        for (unsigned i = 0; i < nsp; i++) text.push_back((uint8_t)r.pick(kSpaces));
        switch (r.range(0, 4)) { case 1: text.push_back('-'); break; case 2: text.push_back('+'); break; case 3: text.push_back('-'); text.push_back('-'); break;
                                 case 4: text.push_back('+'); text.push_back(' '); break; default: break; }
    };
    auto decorate_back = [&]() {
        unsigned ntail = (unsigned)r.range(0, 3); if (ntail == 3) ntail = 0;
        for (unsigned i = 0; i < ntail; i++) text.push_back(r.pick(kTails));
    };
    if (sub == 0) {
        c.label("text:printed-value");
        bool isf = r.flag();
        double v;
        switch (r.idx(3)) {
        case 1: if (isf) { const auto &t = float_table(); v = flt_from_bits(t[r.idx(t.size())]); } else { const auto &t = double_table(); v = dbl_from_bits(t[r.idx(t.size())]); } break;
        case 2: v = isf ? (double)flt_from_bits(r.bits32()) : dbl_from_bits(r.bits64()); break;
        default: { int m = (int)r.range(0, 1000); int k = (int)r.range(0, 16) - 8; v = m * std::pow(10.0, k); if (r.flag()) v = -v; }
        }
        static const char *const fmts[] = {"%.*g", "%.*e", "%.*f", "%.*a", "%.*E", "%.*G", "%.*A"};
        const char *f = r.pick(fmts);
        int p = (int)r.range(0, 20);
        char buf[512];
        if (std::fabs(v) > 1e60 && f[3] == 'f') f = fmts[0];
        snprintf(buf, sizeof buf, f, p, v);
        bool front = r.flag();
        if (front && buf[0] != '-') decorate_front();
        text.insert(text.end(), buf, buf + strlen(buf));
        decorate_back();
    } else if (sub == 1) {
        c.label("text:structured");
        decorate_front();
        unsigned kind = (unsigned)r.range(0, 3);
        if (kind == 1) {
            const char *w = r.pick(kWords);
            text.insert(text.end(), w, w + strlen(w));
        } else {
            static const uint8_t nd[] = {1, 0, 2, 3, 5, 8, 15, 16, 17, 18, 20, 25, 40};
            bool hex = kind == 3;
            if (hex) { text.push_back('0'); text.push_back(r.flag() ? 'X' : 'x'); }
            unsigned ni = r.pick(nd);
            for (unsigned i = 0; i < ni; i++) { uint8_t b = r.u8(); text.push_back(hex ? (uint8_t)"0123456789abcdefABCDEF"[b % 22] : (uint8_t)('0' + b % 10)); }
            if (r.flag()) {
                text.push_back('.');
                unsigned nf = r.pick(nd);
                for (unsigned i = 0; i < nf; i++) { uint8_t b = r.u8(); text.push_back(hex ? (uint8_t)"0123456789abcdefABCDEF"[b % 22] : (uint8_t)('0' + b % 10)); }
            }
            if (r.flag()) {
                text.push_back(hex ? (r.flag() ? 'P' : 'p') : (r.flag() ? 'E' : 'e'));
                switch (r.range(0, 2)) { case 1: text.push_back('-'); break; case 2: text.push_back('+'); break; default: break; }
                static const uint16_t exps[] = {0, 1, 5, 10, 22, 23, 37, 38, 39, 44, 45, 46, 100, 307, 308, 309, 323, 324, 325, 400, 1022, 1023, 1024, 1074, 1075, 4000, 99};
                unsigned e = r.pick(exps);
                if (!r.chance(16)) { std::string es = std::to_string(e); text.insert(text.end(), es.begin(), es.end()); }
            }
        }
        decorate_back();
    } else if (sub == 2) {
        // a decimal a hair above the midpoint of two adjacent floats: strtof rounds up, (float)strtod may not
        c.label("text:float-midpoint+epsilon");
        uint32_t fb = ((uint32_t)r.bits32() & 0x007FFFFFu) | ((uint32_t)r.range(107, 147) << 23);
        float f = flt_from_bits(fb);
        double mid = ((double)f + (double)std::nextafterf(f, INFINITY)) / 2;     // exact in double
        char buf[256];
        snprintf(buf, sizeof buf, "%.80f", mid);                                // exact decimal expansion
        if (r.flag()) text.push_back('-');
        text.insert(text.end(), buf, buf + strlen(buf));
        unsigned extra = (unsigned)r.range(0, 2);
        if (extra == 0) text.push_back('1'); else if (extra == 1) { text.push_back('0'); text.push_back('0'); text.push_back('7'); }   // extra==2: the tie itself
    } else {
        c.label("text:raw-alphabet");
        static const uint8_t lens[] = {0, 1, 2, 3, 4, 5, 6, 7, 8, 10, 12, 16, 20, 24, 32, 40};
        size_t n = r.pick(lens);
        for (size_t i = 0; i < n; i++) {
            uint8_t b = r.u8();
            text.push_back(b < 232 ? (uint8_t)kFloatAlphabet[b % sizeof kFloatAlphabet] : r.u8());
        }
    }
    return run_parse_case(c, text, (int)r.idx(kRoutes));
}

// ---------------------------------------------------------------------------------------------
// Enumeration: directed value tables x notation x precision table x '+', the width / alignment /
// pad combination rotating through all 45 combinations.
long verif_enumerate(int shard, int nshards, int tier, verif::EnumReport &r) {
    std::vector<int> precs = {-1, 0, 1, 6, 15, 17, 30, 60, 100, 400, 2, 3, 9, 16, 18, 20, 40, 62, 63, 64, 70, 200, 308, 399};
    if (tier != 0) { precs.clear(); precs.push_back(-1); for (int p = 0; p <= 70; p++) precs.push_back(p); for (int p : {99, 100, 101, 200, 308, 309, 310, 399, 400}) precs.push_back(p); }
    uint8_t cur[kRenderBytes];
    long counter = 0;
    auto run = [&](RenderCase &rc) -> bool {
        // rotate width kind x alignment x pad
        const long combo = counter++ % 45;
        const int wk = (int)(combo % 5), al = (int)((combo / 5) % 3), pk = (int)(combo / 15);
        const size_t len = ref::c_printf_double(rc.value(), kConv[rc.conv], rc.plus, rc.prec).size();
        rc.width = wk == 0 ? 0 : wk == 1 ? (int)len - 1 : wk == 2 ? (int)len + 1 : wk == 3 ? 40 : 300;
        if (rc.width < 0) rc.width = 0;
        rc.align = al; rc.padkind = pk; rc.padch = kPadChars[counter % (long)sizeof kPadChars];
        rc.order = (unsigned)(counter * 7) & 0xFF; rc.ctx = (int)(counter & 3);
        rc.letter = -1;                                    // from_*/stream: once per (value, notation), upper-case letters every other time
        if (rc.prec < 0 && !rc.plus && !rc.cplx) { rc.letter = rc.conv; if ((counter >> 2) & 1) { if (rc.conv == 0) rc.letter = 4; else if (rc.conv == 1) rc.letter = 5; } }
        encode_render(rc, cur);
        verif::set_current(cur, kRenderBytes);
        r.evaluations++;
        const double dv = rc.value();
        const bool sub = rc.is_float ? is_subnormal_f(flt_from_bits((uint32_t)rc.bits)) : is_subnormal(dv);
        if (len > 24 || !std::isfinite(dv) || sub) r.nontrivial++;
        std::string why = check_render(rc, nullptr);
        if (!why.empty()) {
            if (r.failure.empty()) { r.failure = why; r.failing_case = render_render(rc); r.failing_bytes.assign(cur, cur + kRenderBytes); }
            return false;
        }
        if (r.samples.size() < 2 && shard < 4 && (counter % 977) == (r.samples.empty() ? 1 : 500)) r.samples.push_back(render_render(rc));
        return true;
    };
    auto sweep = [&](bool is_float, uint64_t bits) -> bool {
        for (int conv = 0; conv < 4; conv++)
            for (int prec : precs)
                for (int plus = 0; plus < 2; plus++) {
                    RenderCase rc; rc.is_float = is_float; rc.bits = bits; rc.conv = conv; rc.prec = prec; rc.plus = plus != 0;
                    if (!run(rc)) return false;
                }
        return true;
    };
    const auto &dt = double_table();
    for (size_t i = (size_t)shard; i < dt.size(); i += (size_t)nshards) if (!sweep(false, dt[i])) return r.evaluations;
    const auto &ft = float_table();
    for (size_t i = (size_t)shard; i < ft.size(); i += (size_t)nshards) if (!sweep(true, ft[i])) return r.evaluations;
    // ---- std::complex: every table value as the real part, the next-but-k table value as the imaginary part, notation x precision rotating
    auto complex_sweep = [&](bool is_float, size_t i, uint64_t re, uint64_t im) -> bool {
        for (int conv = 0; conv < 4; conv++) {
            RenderCase rc; rc.is_float = is_float; rc.bits = re; rc.bits2 = im; rc.cplx = true; rc.conv = conv;
            rc.prec = precs[(i + (size_t)conv * 5) % precs.size()]; rc.plus = ((i >> 1) + (size_t)conv) & 1;
            if (!run(rc)) return false;
        }
        return true;
    };
    for (size_t i = (size_t)shard; i < dt.size(); i += (size_t)nshards) if (!complex_sweep(false, i, dt[i], dt[(i * 7 + 13) % dt.size()])) return r.evaluations;
    for (size_t i = (size_t)shard; i < ft.size(); i += (size_t)nshards) if (!complex_sweep(true, i, ft[i], ft[(i * 7 + 13) % ft.size()])) return r.evaluations;

    // ---- a number streamed / formatted into output that already holds `fill` bytes: every fill level 0..5000
    {
        uint8_t scur[kStreamBytes];
        static const double svals[4] = {-DBL_MAX, 1.5, -1e-100, 123456.0};
        for (size_t fill = (size_t)shard; fill <= kMaxFill; fill += (size_t)nshards)
            for (int isf = 0; isf < 2; isf++)
                for (int vi = 0; vi < 4; vi++) {
                    StreamCase sc; sc.is_float = isf != 0; sc.fill = fill;
                    const double d = (isf && vi == 0) ? -(double)FLT_MAX : svals[vi];
                    sc.bits = isf ? (uint64_t)bits_of((float)d) : bits_of(d);
                    sc.pre = (int)((fill + (size_t)isf * 3 + (size_t)vi) % 7); sc.tail = (int)((fill / 7 + (size_t)isf + (size_t)vi * 2) % 5);
                    sc.conv = (int)((fill / 5 + (size_t)vi) % 4); sc.prec = vi == 1 ? (int)(fill % 80) : vi == 3 ? 60 : -1;     // {f} of -DBL_MAX: 317 characters
                    encode_stream(sc, scur);
                    verif::set_current(scur, kStreamBytes);
                    r.evaluations++;
                    bool straddles, ends_on; stream_boundary(sc, straddles, ends_on);
                    if (straddles || ends_on || fill >= ST_STACK_STRING_SIZE) r.nontrivial++;
                    std::string why = check_stream(sc);
                    if (!why.empty()) {
                        if (r.failure.empty()) { r.failure = why; r.failing_case = render_stream(sc); r.failing_bytes.assign(scur, scur + kStreamBytes); }
                        return r.evaluations;
                    }
                    if (shard == 2 && fill == 242 && isf == 0 && vi == 0 && r.samples.size() < 4) r.samples.push_back(render_stream(sc));
                }
    }

    // ---- parse direction: every string of length <= 4 (quick) / 5 (thorough) over a 16-symbol alphabet, and the word list
    {
        static const uint8_t alpha[16] = {'0', '1', '9', '.', 'e', 'E', '+', '-', 'x', 'p', 'n', 'a', 'i', 'f', ' ', 0x00};
        uint8_t pcur[80];
        auto parse = [&](const uint8_t *t, size_t n) -> bool {
            pcur[0] = 0xFE; if (n) memcpy(pcur + 1, t, n);
            verif::set_current(pcur, n + 1);
            r.evaluations++;
            ParseFacts pf;
            std::string why = check_parse(t, n, &pf);
            if (pf.consumed > 0 && (pf.consumed < n || pf.special || pf.range)) r.nontrivial++;
            if (!why.empty()) {
                if (r.failure.empty()) { r.failure = why; r.failing_case = render_parse(t, n); r.failing_bytes.assign(pcur, pcur + n + 1); }
                return false;
            }
            return true;
        };
        const int L = tier == 0 ? 4 : 5;
        uint8_t t[8];
        if (shard == 0 && !parse(t, 0)) return r.evaluations;
        for (int first = shard; first < 16; first += nshards) {
            t[0] = alpha[first];
            for (int len = 1; len <= L; len++) {
                long count = 1; for (int i = 1; i < len; i++) count *= 16;
                for (long idx = 0; idx < count; idx++) {
                    long v = idx; for (int i = 1; i < len; i++) { t[i] = alpha[v & 15]; v >>= 4; }
                    if (!parse(t, (size_t)len)) return r.evaluations;
                }
            }
        }
        const size_t nwords = sizeof kWords / sizeof kWords[0];
        for (size_t wi = (size_t)shard; wi < nwords; wi += (size_t)nshards) {
            const size_t wl = strlen(kWords[wi]);
            static const char *const before[] = {"", " ", "-", "+", "\t-"};
            static const char *const after[] = {"", " ", "x", "0", "e1", "\0" "1"};
            for (const char *b : before)
                for (size_t ai = 0; ai < 6; ai++) {
                    std::string tx = std::string(b) + kWords[wi] + (ai == 5 ? std::string("\0" "1", 2) : std::string(after[ai]));
                    if (tx.size() < 70 && !parse((const uint8_t *)tx.data(), tx.size())) return r.evaluations;
                    (void)wl;
                }
        }
    }
    if (shard == 0) {
        r.exhausted.push_back("render: std::complex<double>/<float> with every directed-table value as real part (imaginary part: another table value) x {default,f,e,E}, precision and '+' rotating");
        r.exhausted.push_back("stream: every fill level 0..5000 of a string_stream / ST::format output x {float,double} x 4 values (-max, 1.5, -1e-100, 123456), pre-state (7), tail (5), notation and precision rotating");
        r.exhausted.push_back(std::string("parse: every byte string of length 0..") + (tier == 0 ? "4" : "5") + " over {0 1 9 . e E + - x p n a i f space NUL}; " + verif::unum(sizeof kWords / sizeof kWords[0]) +
                              " special spellings x 5 prefixes x 6 suffixes; to_double/to_float, with and without conversion_result, one re-used conversion_result pair each");
        r.exhausted.push_back("render: directed table of " + verif::unum(dt.size()) + " doubles and " + verif::unum(ft.size()) +
                              " floats (+-0, +-inf, NaNs, min/max normal and subnormal, every 10^k and 2^k with both neighbours, rounding cases, both signs) x {default,f,e,E} x " +
                              verif::unum(precs.size()) + " precisions x '+'; width/alignment/pad rotate through all 45 combinations");
    }
    return r.evaluations;
}

void verif_corpus(std::vector<std::vector<uint8_t>> &out) {
    auto parse_seed = [&](const char *t) { std::vector<uint8_t> v{0xFE}; v.insert(v.end(), t, t + strlen(t)); out.push_back(v); };
    parse_seed("1.5"); parse_seed("  -3.14159e+00xx"); parse_seed("inf"); parse_seed("-nan(0x123)"); parse_seed("0x1.8p3"); parse_seed("1e400"); parse_seed("4.9e-324");
    uint8_t b[kRenderBytes];
    RenderCase rc; rc.bits = bits_of(1e100); rc.conv = 1; rc.letter = 1; encode_render(rc, b); out.push_back(std::vector<uint8_t>(b, b + kRenderBytes));
    rc = RenderCase(); rc.bits = bits_of(3.14159); rc.conv = 2; rc.prec = 70; rc.width = 90; rc.align = 1; rc.padkind = 2; encode_render(rc, b); out.push_back(std::vector<uint8_t>(b, b + kRenderBytes));
    out.push_back({0, 0, 0, 0});
    rc = RenderCase(); rc.bits = bits_of(-1.5); rc.bits2 = bits_of(1e100); rc.cplx = true; rc.conv = 1; rc.letter = -1; rc.width = 12; encode_render(rc, b); out.push_back(std::vector<uint8_t>(b, b + kRenderBytes));
    uint8_t sb[kStreamBytes];
    StreamCase sc; sc.bits = bits_of(-DBL_MAX); sc.fill = 243; sc.tail = 2; sc.conv = 1; encode_stream(sc, sb); out.push_back(std::vector<uint8_t>(sb, sb + kStreamBytes));
    out.push_back({20 << 3, 0, 0, 0, 0, 0, 0, 0, 0});
    out.push_back({23 << 3, 0, 0, 0, 0, 0, 0, 0, 0});
    out.push_back({26 << 3, 0, 0, 0, 0, 0, 0, 0, 0});
}
