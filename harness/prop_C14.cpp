// C14: hex and base64 encodings are standard and decode back to the original bytes.
#include <string_theory/codecs>
#include <string_theory/string>

#include "common/verif.h"
#include "ref/ref_codecs.h"

using verif::Case;

const verif::Info verif_info = {
    "C14", 420,
    "byte arrays: enumerated - every 3-byte group (2^24) alone and as the last group after a 3-byte prefix, every 2-byte and 1-byte tail, "
    "all 65536 byte pairs for hex; generated - arrays of length 0..400 with lengths spread over every residue mod 3 and around the "
    "small-string limit of the encoded text, 1 in 16 extended to 500..8192 bytes, input and output blocks starting at every offset 0..7 from "
    "an 8-byte boundary (exact-size blocks); one probe of all six entry points during static initialisation (init_priority 101). Oracle: RFC 4648 / lower-case hex written arithmetically, lengths 2n and 4*ceil(n/3), "
    "decode(encode(x))==x through allocating and caller-buffer decoders, upper-case hex decodes equally. Non-trivial: length >= 1; "
    "distinct by content hash (enumerated cases are distinct by construction).",
    true, "exploration"};

namespace {

// The codecs must also work while static objects are being initialised (a program may decode a constant in a namespace-scope
// initialiser): this object is constructed before ordinary namespace-scope objects of this translation unit - and before any
// table the library might build at start-up.
struct EarlyProbe {
    std::string why;
    EarlyProbe() {
        try {
            static const uint8_t raw[] = {0xDE, 0xAD, 0xBE, 0xEF, 0x00, 0x7F, 0x80, 0xFF, 0x41};
            ST::string hex = ST::hex_encode(raw, sizeof raw), b64 = ST::base64_encode(raw, sizeof raw);
            if (std::string(hex.c_str(), hex.size()) != ref::hex_encode(raw, sizeof raw)) why = "during static initialisation hex_encode gives " + std::string(hex.c_str(), hex.size());
            else if (std::string(b64.c_str(), b64.size()) != ref::b64_encode(raw, sizeof raw)) why = "during static initialisation base64_encode gives " + std::string(b64.c_str(), b64.size());
            else {
                ST::char_buffer a = ST::hex_decode(hex), b = ST::base64_decode(b64), u = ST::hex_decode(ST::string("DEADBEEF007F80FF41"));
                uint8_t out1[sizeof raw], out2[sizeof raw];
                if (a.size() != sizeof raw || memcmp(a.data(), raw, sizeof raw) != 0) why = "during static initialisation hex_decode(hex_encode(x)) != x";
                else if (u.size() != sizeof raw || memcmp(u.data(), raw, sizeof raw) != 0) why = "during static initialisation upper-case hex decodes to other bytes";
                else if (b.size() != sizeof raw || memcmp(b.data(), raw, sizeof raw) != 0) why = "during static initialisation base64_decode(base64_encode(x)) != x";
                else if (ST::hex_decode(hex, out1, sizeof out1) != (ST_ssize_t)sizeof raw || memcmp(out1, raw, sizeof raw) != 0) why = "during static initialisation hex_decode (caller buffer) != x";
                else if (ST::base64_decode(b64, out2, sizeof out2) != (ST_ssize_t)sizeof raw || memcmp(out2, raw, sizeof raw) != 0) why = "during static initialisation base64_decode (caller buffer) != x";
            }
        } catch (...) { why = "during static initialisation a codec call threw"; }
    }
};
__attribute__((init_priority(101))) EarlyProbe g_early;

// The whole oracle for one byte array.  Returns empty string when the property holds.
// exact-size block whose data starts `mis` bytes after an allocation boundary (malloc results are 16-byte aligned, so a
// word-at-a-time implementation is only exercised on its aligned path unless the start is moved); the end stays exact
struct Misaligned {
    uint8_t *blk; uint8_t *p; size_t n;
    Misaligned(const uint8_t *x, size_t count, unsigned mis) : n(count) { blk = (uint8_t *)::malloc(count + mis + (count + mis == 0)); p = blk + mis; if (count) memcpy(p, x, count); }
    ~Misaligned() { ::free(blk); }
    uint8_t *data() { return p; }
};
std::string check_array(const uint8_t *x, size_t n, bool null_ptr_for_empty, unsigned mis = 0) {
    Misaligned in(x, n, mis);                     // exact-size: over-read => ASan
    const void *ptr = (n == 0 && null_ptr_for_empty) ? nullptr : in.data();
    try {
        // --- hex
        const std::string want_hex = ref::hex_encode(x, n);
        ST::string hex = ST::hex_encode(ptr, n);
        if (hex.size() != 2 * n) return "hex_encode length " + verif::unum(hex.size()) + " != 2n";
        if (std::string(hex.c_str(), hex.size()) != want_hex) return "hex_encode gives " + verif::quoted(std::string(hex.c_str(), hex.size())) + ", standard is " + verif::quoted(want_hex);
        if (hex.c_str()[hex.size()] != 0) return "hex_encode result not NUL-terminated";
        ST::char_buffer cb(reinterpret_cast<const char *>(in.data()), n);
        ST::string hex2 = ST::hex_encode(cb);
        if (hex2 != hex) return "hex_encode(char_buffer) differs from hex_encode(ptr,len)";
        {
            ST::char_buffer back = ST::hex_decode(hex);
            if (back.size() != n || memcmp(back.data(), x, n) != 0) return "hex_decode(hex_encode(x)) != x (allocating form)";
            if (back.data()[n] != 0) return "hex_decode result not NUL-terminated";
            Misaligned out(x, n, (mis * 3 + 1) % 8 * (mis != 0)); memset(out.data(), 0xA5, n);
            ST_ssize_t r = ST::hex_decode(hex, out.data(), n);
            if (r != (ST_ssize_t)n) return "hex_decode(caller buffer of exact size) returned " + verif::num(r) + ", expected " + verif::unum(n);
            if (memcmp(out.data(), x, n) != 0) return "hex_decode(hex_encode(x)) != x (caller-buffer form)";
            if (ST::hex_decode(hex, nullptr, 0) != (ST_ssize_t)n) return "hex_decode(null output) does not report the decoded length";
            std::string up = want_hex; for (char &ch : up) if (ch >= 'a' && ch <= 'f') ch = char(ch - 'a' + 'A');
            ST::char_buffer backu = ST::hex_decode(ST::string(up.data(), up.size()));
            if (backu.size() != n || memcmp(backu.data(), x, n) != 0) return "upper-case hex decodes differently from lower-case";
        }
        // --- base64
        const std::string want_b64 = ref::b64_encode(x, n);
        ST::string b64 = ST::base64_encode(ptr, n);
        if (b64.size() != 4 * ((n + 2) / 3)) return "base64_encode length " + verif::unum(b64.size()) + " != 4*ceil(n/3)";
        if (std::string(b64.c_str(), b64.size()) != want_b64) return "base64_encode gives " + verif::quoted(std::string(b64.c_str(), b64.size())) + ", RFC 4648 is " + verif::quoted(want_b64);
        if (b64.c_str()[b64.size()] != 0) return "base64_encode result not NUL-terminated";
        ST::string b642 = ST::base64_encode(cb);
        if (b642 != b64) return "base64_encode(char_buffer) differs from base64_encode(ptr,len)";
        {
            ST::char_buffer back = ST::base64_decode(b64);
            if (back.size() != n || memcmp(back.data(), x, n) != 0) return "base64_decode(base64_encode(x)) != x (allocating form)";
            if (back.data()[n] != 0) return "base64_decode result not NUL-terminated";
            Misaligned out(x, n, (mis * 3 + 1) % 8 * (mis != 0)); memset(out.data(), 0xA5, n);
            ST_ssize_t r = ST::base64_decode(b64, out.data(), n);
            if (r != (ST_ssize_t)n) return "base64_decode(caller buffer of exact size) returned " + verif::num(r) + ", expected " + verif::unum(n);
            if (memcmp(out.data(), x, n) != 0) return "base64_decode(base64_encode(x)) != x (caller-buffer form)";
            if (ST::base64_decode(b64, nullptr, 0) != (ST_ssize_t)n) return "base64_decode(null output) does not report the decoded length";
        }
    } catch (...) {
        return "unexpected " + verif::describe_current_exception();
    }
    return std::string();
}

std::string render(const uint8_t *x, size_t n) {
    return "bytes[" + verif::unum(n) + "]=" + verif::units(x, n, 24) + " -> hex " + verif::quoted(ref::hex_encode(x, n < 12 ? n : 12)) +
           (n > 12 ? "..." : "") + " b64 " + verif::quoted(ref::b64_encode(x, n < 12 ? n : 12)) + (n > 12 ? "..." : "");
}

}  // namespace

int verif_case(const uint8_t *data, size_t size, Case &c) {
    verif::Reader r(data, size, c);
    std::vector<uint8_t> x;
    bool nullp = false; unsigned mis = 0; size_t longn = 0;
    if (!g_early.why.empty()) return c.fail(g_early.why);
    uint8_t mode = r.u8();
    if (mode == 0xFE) {                     // directed by length (used by the enumerator): 24-bit length and a content selector; bytes are never zero
        size_t n = r.u8(); n |= (size_t)r.u8() << 8; n |= (size_t)r.u8() << 16; unsigned sel = r.u8();
        if (n > (1u << 18)) n = 1u << 18;
        x.resize(n);
        for (size_t i = 0; i < n; i++) x[i] = (uint8_t)(1 + (i * 131 + sel * 17 + (i >> 8) * 7) % 255);
        c.label("directed-length"); c.label("long>=500");
    } else if (mode == 0xFF) {                     // directed: the rest is the array itself (used by the enumerator)
        while (!r.exhausted()) x.push_back(r.u8());
        c.label("directed");
    } else {
        static const uint16_t lens[] = {0, 1, 2, 3, 4, 5, 6, 7, 8, 9, 10, 11, 12, 13, 15, 16, 17, 31, 32, 33, 47, 48, 49, 64, 100, 127, 128, 255, 256, 257, 399, 400};
        size_t n = (mode & 1) ? r.pick(lens) : r.range(0, 40);
        nullp = (mode & 2) != 0;
        mis = (mode >> 3) & 7;                      // start of the input / output blocks relative to an 8-byte boundary
        if ((mode & 0xC0) == 0xC0) {                // a long array: the generated prefix repeated (word-at-a-time / block-wise code paths)
            static const uint16_t big[] = {500, 1023, 1024, 1025, 2048, 4095, 4096, 4099, 5000, 8192};
            longn = r.pick(big);
        }
        static const uint8_t special[] = {0x00, 0xFF, 0x80, 0x7F, 0xFB, 0xEF, 0xBE, 0x3F, 0x3E, 0xFC};
        for (size_t i = 0; i < n; i++) {
            uint8_t b = r.u8();
            x.push_back((mode & 4) && (b & 1) ? special[(b >> 1) % 10] : b);
        }
        if (longn && n) { size_t base = x.size(); for (size_t i = base; i < longn; i++) x.push_back((uint8_t)(x[i % base] + 31 * (i / base))); n = x.size(); c.label("long>=500"); }
        if (mis) c.label("misaligned-start");
        c.label(n == 0 ? "len0" : n % 3 == 0 ? "len%3==0" : n % 3 == 1 ? "len%3==1" : "len%3==2");
        if (2 * n >= 14 && 2 * n <= 17) c.label("hex-at-small-string-limit");
        if (4 * ((n + 2) / 3) >= 12 && 4 * ((n + 2) / 3) <= 20) c.label("b64-at-small-string-limit");
        if (n > 48) c.label("long");
    }
    c.nontrivial = !x.empty();
    if (c.want_text) c.text = "C14 " + render(x.data(), x.size());
    std::string why = check_array(x.data(), x.size(), nullp, mis);
    if (!why.empty()) return c.fail(why);
    return verif::CASE_OK;
}

// Enumerations.  Shards split on the first byte of the group.
long verif_enumerate(int shard, int nshards, int tier, verif::EnumReport &r) {
    (void)tier;   // the group space is enumerated completely in both tiers (about 10 s on 16 shards)
    uint8_t cur[8];
    auto run = [&](const uint8_t *x, size_t n) -> bool {
        cur[0] = 0xFF; memcpy(cur + 1, x, n); verif::set_current(cur, n + 1);
        r.evaluations++; r.nontrivial++;
        std::string why = check_array(x, n, false);
        if (!why.empty()) {
            if (r.failure.empty()) { r.failure = why; r.failing_case = "C14 " + render(x, n); r.failing_bytes.assign(cur, cur + n + 1); }
            return false;
        }
        return true;
    };
    // arrays of 9 KB .. 96 KB whose lengths sit on and next to multiples of 3072, 4096 and 9216 bytes (block-wise encoders / decoders),
    // never-zero content, two contents each
    {
        static const unsigned centers[] = {3072, 6144, 9216, 12288, 18432, 27648, 36864, 4096, 8192, 16384, 32768, 49152, 65536, 98304};
        int idx = 0;
        for (unsigned cen : centers) for (int d = -3; d <= 4; d++) for (unsigned sel = 0; sel < 2; sel++) {
            if (idx++ % nshards != shard) continue;
            const size_t n = cen + d;
            std::vector<uint8_t> x(n);
            for (size_t i = 0; i < n; i++) x[i] = (uint8_t)(1 + (i * 131 + sel * 17 + (i >> 8) * 7) % 255);
            uint8_t cb[5] = {0xFE, (uint8_t)n, (uint8_t)(n >> 8), (uint8_t)(n >> 16), (uint8_t)sel};
            verif::set_current(cb, 5);
            r.evaluations++; r.nontrivial++;
            std::string why = check_array(x.data(), n, false, (unsigned)(d & 7));
            if (!why.empty()) { r.failure = why; r.failing_case = "C14 " + render(x.data(), n); r.failing_bytes.assign(cb, cb + 5); return r.evaluations; }
        }
        if (shard == 0) r.exhausted.push_back("arrays of length c-3..c+4 for c in {3072, 6144, 9216, 12288, 18432, 27648, 36864, 4096, 8192, 16384, 32768, 49152, 65536, 98304}, never-zero content (2 contents), every decoder");
    }
    for (int a = shard; a < 256; a += nshards) {
        for (int b = 0; b < 256; b++) {
            for (int cc = 0; cc < 256; cc++) {
                uint8_t g[6] = {0x12, 0xEF, 0x80, (uint8_t)a, (uint8_t)b, (uint8_t)cc};
                if (!run(g + 3, 3)) return r.evaluations;           // the group alone
                if (!run(g, 6)) return r.evaluations;               // as last group after a 3-byte prefix
                if (a == shard && b == 0 && cc == 0x41 && r.want_sample()) r.samples.push_back("C14 " + render(g, 6));
            }
            uint8_t t2[5] = {0x12, 0xEF, 0x80, (uint8_t)a, (uint8_t)b};
            if (!run(t2 + 3, 2)) return r.evaluations;              // 2-byte tail alone / after a group
            if (!run(t2, 5)) return r.evaluations;
        }
        uint8_t t1[4] = {0x12, 0xEF, 0x80, (uint8_t)a};
        if (!run(t1 + 3, 1)) return r.evaluations;
        if (!run(t1, 4)) return r.evaluations;
    }
    if (shard == 0) {
        r.exhausted.push_back("all 2^24 3-byte groups, alone and as final group after a 3-byte prefix (over all shards)");
        r.exhausted.push_back("all 2^16 2-byte tails and 2^8 1-byte tails, alone and after a 3-byte group; these cover every byte pair for hex");
    }
    return r.evaluations;
}

void verif_corpus(std::vector<std::vector<uint8_t>> &out) {
    out.push_back({0xFF, 'H', 'e', 'l', 'l', 'o'});
    out.push_back({1, 9, 0, 1, 2, 3, 4, 5, 6, 7, 8});
}
