// C15: hex_decode / base64_decode accept exactly the valid encodings and never overrun the output buffer.
#include <string_theory/codecs>
#include <string_theory/string>

#include "common/verif.h"
#include "ref/ref_codecs.h"

using verif::Case;

const verif::Info verif_info = {
    "C15", 420,
    "texts over all 256 byte values handed to hex_decode/base64_decode (built with ST::string::from_validated). Enumerated: base64 - every string of "
    "length 0..8 over the class representatives {'A','/','=',NUL,0x80,'!','z'} (thorough adds '-') and of length 12 over {'A','=','!'} (thorough adds '/'), every byte value at every position and every "
    "pair of byte values at every two positions of a final group (unpadded, '=' and '==' shapes, alone and after a valid group) and of a non-final group "
    "(before each final shape); hex - all 65536 two-character strings alone, after and before a valid pair, every string of length 0..4 (thorough 5) over 16 "
    "class representatives (odd lengths included). Generated: a valid encoding of 0..300 random bytes (mixed-case hex) with 0-2 corruptions (foreign byte, "
    "'=' moved/added, truncation, insertion, deletion, swap) biased to the last and first group; raw texts (libFuzzer). Every text is run through the "
    "allocating form, the null-output form and the caller-buffer form with output_size = 0..d+1 (d = implied length; for d > 8: 0,1,d-2..d+1,d+9, a selected "
    "size and a roomy one), the output being (a) an exact-size heap block with nothing addressable behind it (ASan) and (b) a window in a canary-filled "
    "frame. Oracle: the statement's acceptance predicate and RFC 4648 decoding written arithmetically (ref_codecs.h): codec_error iff predicate false; "
    "-1 iff predicate false or d > output_size; else returns d, wrote exactly the d reference bytes, every other byte of the window and frame unchanged; null "
    "output returns the length implied by size and padding (-1 bad length). Non-trivial: text not empty (each such case includes output sizes d-1, d, d+1); "
    "labels split by validity, reject reason, '=', NUL, high bytes.",
    true, "exploration"};

namespace {

struct Text {
    int codec;                    // 0 hex, 1 base64
    std::vector<uint8_t> t;
    long sel = -1;                // extra output size to try (generated cases), -1 none
};

const char *codec_name(int codec) { return codec ? "base64_decode" : "hex_decode"; }

ST_ssize_t call_buf(int codec, const ST::string &s, void *out, size_t out_size) {
    return codec ? ST::base64_decode(s, out, out_size) : ST::hex_decode(s, out, out_size);
}

uint8_t canary_at(size_t i, unsigned salt) { return (uint8_t)(0xA5 ^ (i * 37) ^ (salt * 0x53)); }

// caller-buffer form with one output_size, two memory arrangements.  Empty string = holds.
std::string check_size(int codec, const ST::string &text, bool valid, const std::vector<uint8_t> &want, size_t os, bool framed) {
    const long expect = (valid && want.size() <= os) ? (long)want.size() : -1;
    const unsigned salt = (unsigned)os;
    if (framed) {
        // (b) window inside a canary-filled frame: independent of the sanitizer
        const size_t G = 24;
        size_t total = G + os + G;
        static uint8_t *small_frames[17];
        uint8_t *f = os <= 16 && small_frames[os] ? small_frames[os] : static_cast<uint8_t *>(::malloc(total));
        if (os <= 16) small_frames[os] = f;
        for (size_t i = 0; i < total; i++) f[i] = canary_at(i, salt + 1);
        ST_ssize_t r = call_buf(codec, text, f + G, os);
        std::string why;
        if ((long)r != expect) why = std::string(codec_name(codec)) + "(text, buf, " + verif::unum(os) + ") returned " + verif::num(r) + ", expected " + verif::num(expect) + " (framed buffer)";
        for (size_t i = 0; i < total && why.empty(); i++) {
            bool inside = i >= G && i < G + os;
            if (inside && r < 0) continue;                               // a failed call may have written part of the window
            if (inside && i - G < (size_t)r) { if (f[i] != want[i - G]) why = std::string(codec_name(codec)) + "(text, buf, " + verif::unum(os) + ") decoded byte " + verif::unum(i - G) + " wrongly (framed buffer)"; continue; }
            if (f[i] != canary_at(i, salt + 1))
                why = std::string(codec_name(codec)) + "(text, buf, " + verif::unum(os) + ") returned " + verif::num(r) + " and changed the byte at offset " + verif::num((long)i - (long)G) +
                      (inside ? " inside the buffer beyond the returned length" : " OUTSIDE the output_size bytes of the buffer");
        }
        if (os > 16) ::free(f);
        if (!why.empty()) return why;
    }
    {
        // (a) exact-size block: the window ends where the allocation ends; for os==0 a one-past-the-end pointer
        // (blocks for the small sizes are allocated once and reused: same redzones, no allocator churn in the enumerations)
        static uint8_t *small_blocks[17];
        size_t blk = os ? os : 1;
        uint8_t *p = os <= 16 && small_blocks[os] ? small_blocks[os] : static_cast<uint8_t *>(::malloc(blk));
        if (os <= 16) small_blocks[os] = p;
        uint8_t *win = os ? p : p + 1;
        for (size_t i = 0; i < os; i++) win[i] = canary_at(i, salt);
        ST_ssize_t r = call_buf(codec, text, win, os);
        std::string why;
        if ((long)r != expect) why = std::string(codec_name(codec)) + "(text, buf, " + verif::unum(os) + ") returned " + verif::num(r) + ", expected " + verif::num(expect);
        else if (r >= 0) {
            if (r && memcmp(win, want.data(), (size_t)r) != 0) why = std::string(codec_name(codec)) + "(text, buf, " + verif::unum(os) + ") wrote " + verif::units(win, (size_t)r, 16) + ", reference decoding is " + verif::units(want.data(), want.size(), 16);
            for (size_t i = (size_t)r; i < os && why.empty(); i++)
                if (win[i] != canary_at(i, salt)) why = std::string(codec_name(codec)) + "(text, buf, " + verif::unum(os) + ") returned " + verif::num(r) + " but changed byte " + verif::unum(i) + " of the buffer";
        }
        if (os > 16) ::free(p);
        if (!why.empty()) return why;
    }
    return std::string();
}

struct Facts { bool valid; long implied; int reject; };

Facts facts(int codec, const std::string &s) {
    Facts f;
    f.valid = codec ? ref::b64_valid(s) : ref::hex_valid(s);
    f.implied = codec ? ref::b64_implied_size(s) : ref::hex_implied_size(s);
    f.reject = codec ? ref::b64_reject_class(s) : (f.valid ? 0 : (s.size() % 2) ? 1 : 3);
    return f;
}

// The whole oracle for one text.  Empty string = the property holds on it.
std::string check_text(const Text &x, bool framed_everywhere, long *calls = nullptr) {
    const int codec = x.codec;
    const std::string s(reinterpret_cast<const char *>(x.t.data()), x.t.size());
    const Facts f = facts(codec, s);
    std::vector<uint8_t> want;
    if (f.valid) want = codec ? ref::b64_decode(s) : ref::hex_decode(s);
    if (f.valid && (long)want.size() != f.implied) return "harness error: reference decoding and implied size disagree";
    long ncalls = 0;
    try {
        verif::Exact<char> in(reinterpret_cast<const char *>(x.t.data()), x.t.size());      // over-read of the source => ASan
        const ST::string text = ST::string::from_validated(in.data(), in.size());
        if (text.size() != s.size() || memcmp(text.c_str(), s.data(), s.size()) != 0) return "harness error: from_validated did not keep the bytes";

        // allocating form
        bool threw = false;
        try {
            ST::char_buffer got = codec ? ST::base64_decode(text) : ST::hex_decode(text);
            ncalls++;
            if (!f.valid) return std::string(codec_name(codec)) + "(text) accepted an invalid encoding and returned " + verif::unum(got.size()) + " bytes";
            if (got.size() != want.size() || (want.size() && memcmp(got.data(), want.data(), want.size()) != 0))
                return std::string(codec_name(codec)) + "(text) returned [" + verif::units(got.data(), got.size(), 16) + "], reference decoding is [" + verif::units(want.data(), want.size(), 16) + "]";
        } catch (const ST::codec_error &) {
            threw = true; ncalls++;
        }
        if (threw && f.valid) return std::string(codec_name(codec)) + "(text) threw codec_error on a valid encoding";

        // null output: the length implied by size and padding, whatever output_size says
        ST_ssize_t q = call_buf(codec, text, nullptr, 0);
        if ((long)q != f.implied) return std::string(codec_name(codec)) + "(text, nullptr, 0) returned " + verif::num(q) + ", implied length is " + verif::num(f.implied);
        size_t qs = (size_t)(f.implied < 0 ? 1 : f.implied + 1);
        q = call_buf(codec, text, nullptr, qs);
        if ((long)q != f.implied) return std::string(codec_name(codec)) + "(text, nullptr, " + verif::unum(qs) + ") returned " + verif::num(q) + ", implied length is " + verif::num(f.implied);
        ncalls += 2;

        // caller buffer, output sizes below, at and above the implied length
        const size_t d = f.implied < 0 ? 0 : (size_t)f.implied;
        size_t sizes[16]; int ns = 0;
        if (d <= 8) { for (size_t k = 0; k <= d + 1; k++) sizes[ns++] = k; }
        else { sizes[ns++] = 0; sizes[ns++] = 1; sizes[ns++] = d - 2; sizes[ns++] = d - 1; sizes[ns++] = d; sizes[ns++] = d + 1; sizes[ns++] = d + 9; }
        sizes[ns++] = (s.size() > d ? s.size() : d) + 5;                 // roomy: larger than the text itself
        if (x.sel >= 0) sizes[ns++] = (size_t)x.sel;
        for (int i = 0; i < ns; i++) {
            bool framed = framed_everywhere || sizes[i] + 1 == d || sizes[i] == d || i == ns - 1;
            std::string why = check_size(codec, text, f.valid, want, sizes[i], framed);
            ncalls += framed ? 2 : 1;
            if (!why.empty()) return why;
        }
        // output_size far above anything that exists (a caller that passes "no limit"): the decision and the bytes written must not depend on it.
        // The real block has exactly d bytes for a valid text (ASan sees any byte beyond), and room for a partial decode for an invalid one.
        static const size_t kHuge[] = {(size_t)-1, (size_t)-2, (size_t)-1 / 2, (size_t)-1 / 2 + 1, (size_t)1 << 32, ((size_t)1 << 32) - 1, (size_t)1 << 31, ((size_t)1 << 31) - 1};
        for (size_t hi = 0; hi < sizeof kHuge / sizeof kHuge[0]; hi++) {
            const size_t real = f.valid ? (d ? d : 1) : s.size() + 4;
            uint8_t *blk = static_cast<uint8_t *>(::malloc(real));
            memset(blk, 0xC7, real);
            ST_ssize_t r = call_buf(codec, text, f.valid && d == 0 ? blk + 1 : blk, kHuge[hi]);
            ncalls++;
            std::string why;
            const long expect = f.valid ? (long)d : -1;
            if ((long)r != expect) why = std::string(codec_name(codec)) + "(text, buf, " + verif::unum(kHuge[hi]) + ") returned " + verif::num(r) + ", expected " + verif::num(expect) + " (output_size far larger than the data)";
            else if (f.valid && d && memcmp(blk, want.data(), d) != 0) why = std::string(codec_name(codec)) + "(text, buf, " + verif::unum(kHuge[hi]) + ") wrote " + verif::units(blk, d, 16) + ", reference decoding is " + verif::units(want.data(), want.size(), 16);
            ::free(blk);
            if (!why.empty()) return why;
        }
    } catch (...) {
        return "unexpected " + verif::describe_current_exception() + " from " + codec_name(codec);
    }
    if (calls) *calls += ncalls;
    return std::string();
}

std::string render(const Text &x) {
    const std::string s(reinterpret_cast<const char *>(x.t.data()), x.t.size());
    const Facts f = facts(x.codec, s);
    static const char *why[] = {"valid", "invalid: length", "invalid: '=' misplaced", "invalid: foreign character in the final group", "invalid: foreign character in a non-final group"};
    const char *w = x.codec ? why[f.reject] : (f.valid ? "valid" : (s.size() % 2) ? "invalid: odd length" : "invalid: non-hex character");
    return std::string("C15 ") + codec_name(x.codec) + " text[" + verif::unum(s.size()) + "]=" + verif::quoted(s, 64) + " " + w + ", implied length " + verif::num(f.implied) +
           (x.sel >= 0 ? ", extra output_size " + verif::num(x.sel) : std::string()) + "; all of: allocating, null output, caller buffers of every size below, at and above d (exact block + canary frame)";
}

void classify(const Text &x, Case &c) {
    const std::string s(reinterpret_cast<const char *>(x.t.data()), x.t.size());
    const Facts f = facts(x.codec, s);
    bool has_eq = false, has_nul = false, has_hi = false;
    for (unsigned char ch : s) { has_eq |= ch == '='; has_nul |= ch == 0; has_hi |= ch >= 0x80; }
    if (x.codec) {
        c.label("base64");
        static const char *lab[] = {"b64:valid", "b64:bad-length", "b64:'='-misplaced", "b64:foreign-char-final-group", "b64:foreign-char-nonfinal-group"};
        c.label(lab[f.reject]);
        if (f.valid) { size_t n = s.size(); c.label(n == 0 ? "b64:valid-empty" : s[n - 1] != '=' ? "b64:valid-pad0" : s[n - 2] != '=' ? "b64:valid-pad1" : "b64:valid-pad2"); }
        if (has_eq) c.label("b64:has'='");
    } else {
        c.label("hex");
        c.label(f.valid ? "hex:valid" : (s.size() % 2) ? "hex:odd-length" : "hex:non-hex-char");
        bool up = false, lo = false;
        for (unsigned char ch : s) { up |= ch >= 'A' && ch <= 'F'; lo |= ch >= 'a' && ch <= 'f'; }
        if (f.valid && up && lo) c.label("hex:valid-mixed-case");
    }
    if (has_nul) c.label("text-has-NUL");
    if (has_hi) c.label("text-has-byte>=0x80");
    if (s.size() > 64) c.label("long(>64)");
    if (s.size() > 15 && s.size() <= 64) c.label("beyond-small-string(16..64)");
}

// ---- decoder of generated cases -------------------------------------------------------------------
struct Filler {               // payload bytes: input bytes while they last, then a fixed expansion of what was read
    verif::Reader &r; uint64_t state = 0; bool seeded = false;
    explicit Filler(verif::Reader &rd) : r(rd) {}
    uint8_t next() {
        if (!r.exhausted()) return r.u8();
        if (!seeded) { state = r.c->hash | 1; seeded = true; }
        state = state * 6364136223846793005ull + 1442695040888963407ull;
        return (uint8_t)(state >> 56);
    }
};

void decode_case(verif::Reader &r, Text &x, Case &c) {
    uint8_t mode = r.u8();
    if (mode >= 0xF0) {                      // directed / raw (enumerators use 0xFF): selector byte, then the text itself
        uint8_t sel = r.u8();
        x.codec = sel & 1;
        while (!r.exhausted()) x.t.push_back(r.u8());
        if (sel >> 1) x.sel = (long)(sel >> 1) - 1 + (x.t.size() > 96 ? (long)(x.codec ? x.t.size() / 4 * 3 : x.t.size() / 2) - 32 : 0);
        c.label("raw-text");
        return;
    }
    x.codec = mode & 1;
    static const uint16_t lens_b64[] = {0, 1, 2, 3, 4, 5, 6, 9, 10, 11, 12, 13, 23, 24, 25, 47, 48, 49, 100, 200, 299, 300};
    static const uint16_t lens_hex[] = {0, 1, 2, 3, 4, 7, 8, 9, 15, 16, 17, 31, 32, 33, 64, 100, 199, 200};
    size_t n;
    switch ((mode >> 1) & 3) {
    case 0: n = r.range(0, 12); break;
    case 1: n = x.codec ? r.pick(lens_b64) : r.pick(lens_hex); break;
    case 2: n = r.range(0, 48); break;
    default: n = r.range(0, x.codec ? 300 : 200); break;
    }
    static const uint8_t ncorr_tab[] = {0, 1, 2, 1};
    int ncorr = ncorr_tab[(mode >> 3) & 3];
    uint8_t casemask = (mode & 0x20) ? r.u8() : 0;
    uint8_t selb = r.u8();
    struct Corr { uint8_t kind, where, a, b; uint16_t pos; } cs[2];
    for (int i = 0; i < ncorr; i++) { cs[i].kind = (uint8_t)r.idx(10); cs[i].where = (uint8_t)r.idx(4); cs[i].a = r.u8(); cs[i].b = r.u8(); cs[i].pos = (uint16_t)r.range(0, 1023); }
    // payload last, so that control choices never starve
    std::vector<uint8_t> payload(n);
    Filler fill(r);
    for (size_t i = 0; i < n; i++) payload[i] = fill.next();
    std::string enc = x.codec ? ref::b64_encode(payload.data(), n) : ref::hex_encode(payload.data(), n);
    if (!x.codec) for (size_t i = 0; i < enc.size(); i++) if (enc[i] >= 'a' && ((casemask >> (i % 8)) & 1)) enc[i] = (char)(enc[i] - 'a' + 'A');
    static const uint8_t foreign[] = {'!', 0x00, 0x80, 0xFF, '-', '_', ' ', '\n', 0x00, 0x80, '@', '[', '`', '{', 'g', 'G', ':', '/', '.', 0x00, 0xC3, '=', 0x7F, 0xFF};
    static const uint8_t native_b64[] = {'A', 'z', '0', '9', '+', '/', 'Z', 'a'};
    static const uint8_t native_hex[] = {'0', '9', 'a', 'f', 'A', 'F', '7', 'c'};
    static const char *corr_label[] = {"corrupt:foreign-byte", "corrupt:'='-placed", "corrupt:truncate-1..3", "corrupt:insert-valid-char", "corrupt:delete-char", "corrupt:any-byte",
                                       "corrupt:truncate-group", "corrupt:swap-adjacent", "corrupt:append-'='", "corrupt:insert-foreign"};
    c.label(ncorr == 0 ? "corruptions:0" : ncorr == 1 ? "corruptions:1" : "corruptions:2");
    for (int i = 0; i < ncorr; i++) {
        size_t L = enc.size();
        size_t unit = x.codec ? 4 : 2;
        size_t pos = 0;
        if (L) switch (cs[i].where) {
            case 0: pos = L - 1 - (cs[i].pos % (L < unit ? L : unit)); break;            // inside the last group
            case 1: pos = cs[i].pos % (L < unit ? L : unit); break;                      // inside the first group
            case 2: pos = cs[i].pos % L; break;                                          // anywhere
            default: pos = L > 2 * unit ? L - 2 * unit + cs[i].pos % unit : cs[i].pos % L; break;   // the group before the last
        }
        c.label(corr_label[cs[i].kind]);
        switch (cs[i].kind) {
        case 0: if (L) enc[pos] = (char)foreign[cs[i].a % sizeof foreign]; break;
        case 1: if (L) enc[pos] = '='; break;
        case 2: enc.resize(L - (1 + cs[i].a % 3 < L ? 1 + cs[i].a % 3 : L)); break;
        case 3: enc.insert(enc.begin() + (L ? pos : 0), (char)(x.codec ? native_b64[cs[i].a % 8] : native_hex[cs[i].a % 8])); break;
        case 4: if (L) enc.erase(enc.begin() + pos); break;
        case 5: if (L) enc[pos] = (char)cs[i].a; break;
        case 6: enc.resize(L >= unit ? L - unit : 0); break;
        case 7: if (L > 1) { size_t q = pos + 1 < L ? pos : L - 2; std::swap(enc[q], enc[q + 1]); } break;
        case 8: enc.append(1 + cs[i].a % 4, '='); break;
        default: enc.insert(enc.begin() + (L ? pos : 0), (char)foreign[cs[i].a % sizeof foreign]); break;
        }
    }
    x.t.assign(enc.begin(), enc.end());
    // extra output size around the implied length
    long d = x.codec ? ref::b64_implied_size(enc) : ref::hex_implied_size(enc);
    if (d < 0) d = 0;
    if (selb) { long v = d - 20 + (long)(selb % 41); x.sel = v < 0 ? 0 : v; }
}

}  // namespace

int verif_case(const uint8_t *data, size_t size, Case &c) {
    verif::Reader r(data, size, c);
    Text x;
    decode_case(r, x, c);
    classify(x, c);
    c.nontrivial = !x.t.empty();
    if (c.want_text) c.text = render(x);
    std::string why = check_text(x, true);
    if (!why.empty()) return c.fail(why);
    return verif::CASE_OK;
}

// ---- enumerations -----------------------------------------------------------------------------------
long verif_enumerate(int shard, int nshards, int tier, verif::EnumReport &r) {
    std::vector<uint8_t> cur;
    Text x;
    bool failed = false;
    long calls = 0;
    auto run = [&](int codec, const uint8_t *t, size_t n) -> bool {
        x.codec = codec; x.t.assign(t, t + n); x.sel = -1;
        cur.clear(); cur.push_back(0xFF); cur.push_back((uint8_t)codec); cur.insert(cur.end(), t, t + n);
        verif::set_current(cur.data(), cur.size());
        r.evaluations++;
        if (n) r.nontrivial++;
        std::string why = check_text(x, false, &calls);
        if (!why.empty()) {
            if (r.failure.empty()) { r.failure = why; r.failing_case = render(x); r.failing_bytes = cur; }
            failed = true;
            return false;
        }
        return true;
    };
    auto sample = [&](int which) { if (shard == which && r.samples.empty()) r.samples.push_back(render(x)); };   // one sample per sub-enumeration

    // E1: base64, every string of length 0..8 over the class representatives
    {
        static const uint8_t cls[] = {'A', '/', '=', 0x00, 0x80, '!', 'z', '-'};
        const int K = tier ? 8 : 7;
        uint64_t total = 0, pw = 1, start[10];
        for (int L = 0; L <= 8; L++) { start[L] = total; total += pw; pw *= K; }
        start[9] = total;
        // iterate from the long strings down so that every shard gets a similar share of each length
        for (uint64_t idx = shard; idx < total; idx += nshards) {
            int L = 8; while (idx < start[L]) L--;
            uint64_t v = idx - start[L];
            uint8_t t[8];
            for (int i = L - 1; i >= 0; i--) { t[i] = cls[v % K]; v /= K; }
            if (!run(1, t, (size_t)L)) return r.evaluations;
            if (L == 8 && (idx % 400009) == 3 + 16 * 7) sample(0);
        }
        if (shard == 0) r.exhausted.push_back(std::string("base64: all ") + verif::unum(total) + " strings of length 0..8 over " + (tier ? "{'A','/','=',NUL,0x80,'!','z','-'}" : "{'A','/','=',NUL,0x80,'!','z'}") +
                                              " x (allocating, null output, output_size 0..d+1 and roomy)");
    }
    // E1b: base64, three groups: every string of length 12 over {'A','=','!'} (thorough: plus '/')
    {
        static const uint8_t cls[] = {'A', '=', '!', '/'};
        const int K = tier ? 4 : 3;
        uint64_t total = 1; for (int i = 0; i < 12; i++) total *= K;
        for (uint64_t idx = shard; idx < total; idx += nshards) {
            uint64_t v = idx; uint8_t t[12];
            for (int i = 11; i >= 0; i--) { t[i] = cls[v % K]; v /= K; }
            if (!run(1, t, 12)) return r.evaluations;
            if (idx % 1000003 == 17 + 16 * 20) sample(1);
        }
        if (shard == 0) r.exhausted.push_back(std::string("base64: all ") + verif::unum(total) + " strings of length 12 (three groups) over " + (tier ? "{'A','=','!','/'}" : "{'A','=','!'}"));
    }
    // E2: base64, every byte value at every position / pair of positions of a final and of a non-final group
    {
        static const char *finals[] = {"QUJD", "QUI=", "QQ==", "+/9z", "/+8=", "zw=="};
        static const char *prefixes[] = {"", "Zm9v"};
        static const char *nonfinal[] = {"QUJD", "+/9z"};
        auto in_E1 = [&](const std::string &s) {     // already enumerated by E1 (string over its class alphabet)?
            static const uint8_t cls[] = {'A', '/', '=', 0x00, 0x80, '!', 'z', '-'};
            for (unsigned char ch : s) { bool in = false; for (int i = 0; i < (tier ? 8 : 7); i++) in |= ch == cls[i]; if (!in) return false; }
            return true;
        };
        for (int v = shard; v < 256; v += nshards) {
            for (int p = 0; p < 4; p++) {
                for (const char *fg : finals) for (const char *pre : prefixes) {
                    std::string s = std::string(pre) + fg; s[strlen(pre) + p] = (char)v;
                    if (!run(1, (const uint8_t *)s.data(), s.size())) return r.evaluations;
                    if (p == 2 && pre[0] && fg[3] == '=' && fg[2] != '=') sample(2);
                }
                for (const char *ng : nonfinal) for (int k = 0; k < 3; k++) for (const char *pre : prefixes) {
                    std::string s = std::string(pre) + ng + finals[k]; s[strlen(pre) + p] = (char)v;
                    if (!run(1, (const uint8_t *)s.data(), s.size())) return r.evaluations;
                }
            }
            // pairs of positions (p<q) with both bytes arbitrary: v at p, every w at q
            for (int p = 0; p < 4; p++) for (int q = p + 1; q < 4; q++) for (int w = 0; w < 256; w++) {
                for (int shape = 0; shape < 3; shape++) {
                    std::string s = finals[shape];
                    if ((char)v == s[p] || (char)w == s[q]) continue;   // single-position cases were run above
                    s[p] = (char)v; s[q] = (char)w;
                    if (in_E1(s)) continue;
                    if (!run(1, (const uint8_t *)s.data(), s.size())) return r.evaluations;
                }
                if ((char)v == "QUJD"[p] || (char)w == "QUJD"[q]) continue;
                std::string s2 = std::string("Zm9v") + "QUJD"; s2[4 + p] = (char)v; s2[4 + q] = (char)w;
                if (!run(1, (const uint8_t *)s2.data(), s2.size())) return r.evaluations;
                std::string s3 = std::string("QUJD") + "QUI="; s3[p] = (char)v; s3[q] = (char)w;
                if (!run(1, (const uint8_t *)s3.data(), s3.size())) return r.evaluations;
                if (p == 1 && q == 3 && w == '=') sample(3);
            }
        }
        if (shard == 0) {
            r.exhausted.push_back("base64: each of the 256 byte values at each of the 4 positions of a final group (6 group shapes: unpadded, '=', '=='; alone and after a valid group) and of a non-final group (2 shapes x 3 final shapes, with and without a leading group)");
            r.exhausted.push_back("base64: all 65536 byte pairs at each of the 6 position pairs of a final group (3 shapes alone, unpadded after a group) and of a non-final group");
        }
    }
    // E3: hex, all two-character strings alone, after and before a valid pair; E4: class strings incl. odd lengths
    {
        for (int a = shard; a < 256; a += nshards) for (int b = 0; b < 256; b++) {
            uint8_t t[4] = {(uint8_t)a, (uint8_t)b, 'C', '0'};
            if (!run(0, t, 2)) return r.evaluations;
            if (!run(0, t, 4)) return r.evaluations;
            uint8_t u[4] = {'7', 'f', (uint8_t)a, (uint8_t)b};
            if (!run(0, u, 4)) return r.evaluations;
            if (!run(0, u + 1, 3)) return r.evaluations;                 // odd length, arbitrary bytes
            if (b == 'E') sample(4);
        }
        static const uint8_t hc[] = {'0', '9', 'a', 'f', 'A', 'F', 'g', 'G', '@', '`', '/', ':', 0x00, 0x80, 0xFF, ' '};
        const int maxL = tier ? 5 : 4;
        uint64_t total = 0, pw = 1, start[8];
        for (int L = 0; L <= maxL; L++) { start[L] = total; total += pw; pw *= 16; }
        for (uint64_t idx = shard; idx < total; idx += nshards) {
            int L = maxL; while (idx < start[L]) L--;
            uint64_t v = idx - start[L];
            uint8_t t[8];
            for (int i = L - 1; i >= 0; i--) { t[i] = hc[v % 16]; v /= 16; }
            if (L == 2 || (L == 3 && t[0] == 'f')) continue;            // part of E3
            if (!run(0, t, (size_t)L)) return r.evaluations;
            if (L == 4 && (v = idx % 4099) == 5 + 16 * 3) sample(5);
        }
        if (shard == 0) {
            r.exhausted.push_back("hex: all 65536 two-character strings alone, before \"C0\" and after \"7f\"; all 65536 three-character strings 'f'xy (odd length)");
            r.exhausted.push_back(std::string("hex: all ") + verif::unum(total) + " strings of length 0.." + verif::num(maxL) + " over {0,9,a,f,A,F,g,G,@,`,/,:,NUL,0x80,0xFF,space}");
        }
    }
    (void)failed;
    if (getenv("VERIF_C15_CALLS")) fprintf(stderr, "shard %d: %ld texts, %ld decoder calls\n", shard, r.evaluations, calls);
    return r.evaluations;
}

void verif_corpus(std::vector<std::vector<uint8_t>> &out) {
    auto raw = [&](int codec, const char *s) { std::vector<uint8_t> v = {0xFF, (uint8_t)codec}; v.insert(v.end(), s, s + strlen(s)); out.push_back(v); };
    raw(1, "AQ=="); raw(1, "AQI="); raw(1, "AQID"); raw(1, "AQIDBAUGBwgJCgsMDQ4PEBE="); raw(1, "AQ=A"); raw(1, "A==="); raw(1, "AQIDBA==AQID");
    raw(0, "000102030405060708090A0B0C0D0E0F10F0FF"); raw(0, "0102030"); raw(0, "xF"); raw(0, "01020304");
    out.push_back({0x2B, 5, 0, 7, 2, 0, 9, 9, 9, 1, 2, 3, 4, 5});
    out.push_back({0x0A, 3, 1, 0, 0, 0, 0, 1, 2, 3});
}
