// C16: string_stream content equals the concatenation of everything appended.
#include <string_theory/string_stream>

#include <cstdarg>
#include <string>
#include <string_view>

#include "common/alloc_track.h"
#include "common/verif.h"
#include "gen/unit_gen.h"
#include "ref/ref_unicode.h"

using verif::Case;
namespace va = verif::alloc;

const verif::Info verif_info = {
    "C16", 600,
    "histories of 1..80 operations over 3 heap-placed ST::string_stream objects: append(ptr,len), append(cstr), append_char(ch,count), operator<< of "
    "const char*, wchar_t/char16_t/char32_t text (valid), every integer type incl. extremes, float/double, char, ST::string, std strings and views; "
    "truncate(n)/erase(n) for every relation of n to size; move construction and move assignment between distinct streams in every storage mode; reads; "
    "destroy. Append sizes are chosen so cumulative sizes land on C-1, C, C+1, 2C-1, 2C, 2C+1, 4C.. (C = in-object capacity) and single appends span "
    "several doublings. Oracle: std::string model per stream; after every step size() and raw_buffer()[0,size) equal the model; to_string(true) equals the "
    "bytes when they are valid UTF-8 else throws unicode_error; to_string(false) is the Latin-1 -> UTF-8 transcoding; a moved-from stream is empty and "
    "usable; storage is in-object or an exclusively owned live heap block; no leak / double free. Non-trivial: the history crosses the in-object "
    "capacity and has a truncate/erase/move afterwards.",
    false, "exploration"};

namespace {

typedef ST::string_stream SS;
enum { NSLOT = 3 };
const size_t C = ST_STACK_STRING_SIZE;

struct Slot { SS *obj = nullptr; void *raw = nullptr; std::string model; };

struct World {
    Slot s[NSLOT];
    std::string log; bool want_log = false;
    bool crossed = false, after_cross = false;

    SS *place(int i) { s[i].raw = ::malloc(sizeof(SS)); memset(s[i].raw, 0xEE, sizeof(SS)); return static_cast<SS *>(s[i].raw); }
    void destroy(int i) { if (!s[i].obj) return; { va::LibScope l; s[i].obj->~SS(); } memset(s[i].raw, 0xDD, sizeof(SS)); ::free(s[i].raw); s[i].raw = nullptr; s[i].obj = nullptr; }
    bool inside(int i, const void *p) const { const char *lo = (const char *)s[i].raw; return (const char *)p >= lo && (const char *)p < lo + sizeof(SS); }
    void note(const char *fmt, ...) __attribute__((format(printf, 2, 3))) {
        if (!want_log) return;
        char b[200]; va_list ap; va_start(ap, fmt); vsnprintf(b, sizeof b, fmt, ap); va_end(ap); log += b;
    }
    std::string check(const char *when) {
        char msg[300];
        for (int i = 0; i < NSLOT; i++) {
            if (!s[i].obj) continue;
            const SS &st = *s[i].obj; const std::string &m = s[i].model;
            if (st.size() != m.size()) { snprintf(msg, sizeof msg, "%s: stream %d reports size %zu, the appended bytes number %zu", when, i, st.size(), m.size()); return msg; }
            const char *d = st.raw_buffer();
            if (!d) { snprintf(msg, sizeof msg, "%s: stream %d raw_buffer() is null", when, i); return msg; }
            if (inside(i, d)) {
                if (d + m.size() > (const char *)s[i].raw + sizeof(SS)) { snprintf(msg, sizeof msg, "%s: stream %d keeps %zu bytes in-object but they do not fit", when, i, m.size()); return msg; }
            } else {
                for (int j = 0; j < NSLOT; j++) if (j != i && s[j].raw && inside(j, d)) { snprintf(msg, sizeof msg, "%s: stream %d raw_buffer() points into stream %d", when, i, j); return msg; }
                if (!va::owns(d, m.size())) { snprintf(msg, sizeof msg, "%s: stream %d (size %zu) raw_buffer() is neither in-object nor the start of a live heap block large enough", when, i, m.size()); return msg; }
                for (int j = 0; j < i; j++) if (s[j].obj && s[j].obj->raw_buffer() == d) { snprintf(msg, sizeof msg, "%s: streams %d and %d share one heap block", when, j, i); return msg; }
            }
            if (memcmp(d, m.data(), m.size()) != 0) {
                size_t k = 0; while (d[k] == m[k]) k++;
                snprintf(msg, sizeof msg, "%s: stream %d byte %zu of %zu is %02X, the model has %02X", when, i, k, m.size(), (unsigned char)d[k], (unsigned char)m[k]); return msg;
            }
        }
        if (const char *e = va::error()) { snprintf(msg, sizeof msg, "%s: %s", when, e); va::clear_error(); return msg; }
        return std::string();
    }
    ~World() { for (int i = 0; i < NSLOT; i++) if (s[i].raw) { if (s[i].obj) { try { va::LibScope l; s[i].obj->~SS(); } catch (...) {} } ::free(s[i].raw); } }
};

bool valid_utf8(const std::string &b) {
    ref::Units u; for (unsigned char ch : b) u.push_back(ch);
    for (const ref::Item &it : ref::decode(ref::UTF8, u)) if (!it.ok) return false;
    return true;
}
std::string latin1_to_utf8(const std::string &b) {
    std::vector<uint32_t> sc; for (unsigned char ch : b) sc.push_back(ch);
    ref::Units u = ref::encode(ref::UTF8, sc); return std::string(u.begin(), u.end());
}
std::string fmt_g(double v) { char b[64]; snprintf(b, sizeof b, "%g", v); return b; }

// length for the next append: lands the cumulative size on a capacity boundary, or is small, or spans several doublings
size_t append_len(verif::Reader &r, size_t cur) {
    static const size_t targets[] = {C - 1, C, C + 1, 2 * C - 1, 2 * C, 2 * C + 1, 4 * C - 1, 4 * C, 4 * C + 1, 8 * C, 8 * C + 1, 16 * C + 3};
    switch (r.range(0, 3)) {
    case 0: return r.range(0, 20);
    case 1: { size_t t = r.pick(targets); return t > cur ? t - cur : r.range(0, 5); }
    case 2: return r.range(0, 300);
    default: { static const size_t big[] = {3 * C, 5 * C + 1, 9 * C, 20 * C + 7}; return r.pick(big); }
    }
}
std::string bytes(verif::Reader &r, size_t n, bool allow_high) {
    std::string b; uint8_t st = r.u8();
    for (size_t i = 0; i < n; i++) {
        char ch = (char)('a' + ((st + i) % 26));
        if ((st & 0x30) == 0x10 && i % 11 == 5) ch = ' ';
        if (allow_high && (st & 0xC0) == 0x40 && i % 9 == 4) ch = (char)0xE9;            // not valid UTF-8 on its own
        if ((st & 0xC0) == 0x80 && i % 13 == 6) ch = 0;                                  // embedded NUL
        b.push_back(ch);
    }
    return b;
}

std::string run(verif::Reader &r, Case &c, World &w) {
    va::reset();
    size_t nops = 1 + r.range(0, 79);
    for (size_t k = 0; k < nops; k++) {
        int op = (int)r.range(0, 31), i = (int)r.idx(NSLOT), j = (int)r.idx(NSLOT);
        Slot &S = w.s[i];
        if (op >= 2 && !S.obj) op = 0;                       // anything on a missing stream becomes "create"
        size_t before = S.obj ? S.model.size() : 0;
        if (S.obj && S.model.size() > 65536 && op >= 4 && op <= 23) op = 24;   // keep histories bounded: truncate instead
        try {
            switch (op) {
            case 0: case 1: if (S.obj) continue; { SS *q = w.place(i); va::LibScope l; S.obj = new (q) SS(); } S.model.clear(); w.note("%d=SS(); ", i); break;
            case 2: {   // move-construct a new stream from an existing one
                int t = -1; for (int x = 0; x < NSLOT; x++) if (!w.s[x].obj) t = x;
                if (t < 0) continue;
                { SS *q = w.place(t); va::LibScope l; w.s[t].obj = new (q) SS(std::move(*S.obj)); }
                w.s[t].model = S.model; S.model.clear();
                c.label(w.s[t].model.size() > C ? "move-construct-heap" : "move-construct-inobject");
                if (w.crossed) w.after_cross = true;
                w.note("%d=SS(move %d); ", t, i); break; }
            case 3: {   // move-assign between distinct streams
                if (i == j || !w.s[j].obj) continue;
                { va::LibScope l; *S.obj = std::move(*w.s[j].obj); }
                c.label((S.model.size() > C ? (w.s[j].model.size() > C ? "move-assign heap<-heap" : "move-assign heap<-inobject") : (w.s[j].model.size() > C ? "move-assign inobject<-heap" : "move-assign inobject<-inobject")));
                S.model = w.s[j].model; w.s[j].model.clear();
                if (w.crossed) w.after_cross = true;
                w.note("%d=move %d; ", i, j); break; }
            case 4: case 5: case 6: { std::string b = bytes(r, append_len(r, before), true); verif::Exact<char> e(b.data(), b.size());
                { va::LibScope l; S.obj->append(e.data(), e.size()); } S.model += b; w.note("%d.append(%zu); ", i, b.size()); break; }
            case 7: { std::string b = bytes(r, append_len(r, before) % 400, true); for (char &ch : b) if (!ch) ch = '0'; verif::Exact<char> e(b.data(), b.size(), true);
                { va::LibScope l; S.obj->append(e.data()); } S.model += b; w.note("%d.append(cstr %zu); ", i, b.size()); break; }
            case 8: case 9: { size_t n = append_len(r, before); char ch = (char)r.u8();
                { va::LibScope l; S.obj->append_char(ch, n); } S.model.append(n, ch); w.note("%d.append_char(%02X,%zu); ", i, (unsigned char)ch, n); break; }
            case 10: { std::string b = bytes(r, r.range(0, 40), true); for (char &ch : b) if (!ch) ch = '0'; verif::Exact<char> e(b.data(), b.size(), true);
                { va::LibScope l; *S.obj << e.data(); } S.model += b; w.note("%d<<cstr(%zu); ", i, b.size()); break; }
            case 11: case 12: case 13: {   // wide text in three widths, pointer and STL forms
                std::vector<uint32_t> sc = ugen::scalars(r, 60); for (uint32_t &v : sc) if (!v) v = 0x20AC;
                ref::Units u8 = ref::encode(ref::UTF8, sc); std::string want(u8.begin(), u8.end());
                int form = (int)r.range(0, 2);
                if (op == 11) { std::u16string t; for (uint32_t x : ref::encode(ref::UTF16, sc)) t.push_back((char16_t)x); verif::Exact<char16_t> e(t.data(), t.size(), true);
                    va::LibScope l; if (form == 0) *S.obj << e.data(); else if (form == 1) *S.obj << t; else *S.obj << std::u16string_view(t); }
                else if (op == 12) { std::u32string t(sc.begin(), sc.end()); verif::Exact<char32_t> e(t.data(), t.size(), true);
                    va::LibScope l; if (form == 0) *S.obj << e.data(); else if (form == 1) *S.obj << t; else *S.obj << std::u32string_view(t); }
                else { std::wstring t(sc.begin(), sc.end()); verif::Exact<wchar_t> e(t.data(), t.size(), true);
                    va::LibScope l; if (form == 0) *S.obj << e.data(); else if (form == 1) *S.obj << t; else *S.obj << std::wstring_view(t); }
                S.model += want; c.label("wide-text"); w.note("%d<<wide%d(%zu scalars); ", i, op == 11 ? 16 : 32, sc.size()); break; }
            case 14: case 15: case 16: {   // integers of every type incl. extremes
                static const long long edges[] = {0, 1, -1, 9, 10, -10, 127, -128, 255, 32767, -32768, 65535, 2147483647LL, -2147483647LL - 1, 4294967295LL, 9223372036854775807LL, -9223372036854775807LL - 1};
                long long v = r.flag() ? r.pick(edges) : (long long)r.bits64();
                std::string want; int ty = (int)r.range(0, 5);
                switch (ty) {
                case 0: want = std::to_string((int)v); break;
                case 1: want = std::to_string((unsigned int)v); break;
                case 2: want = std::to_string((long)v); break;
                case 3: want = std::to_string((unsigned long)v); break;
                case 4: want = std::to_string((long long)v); break;
                default: want = std::to_string((unsigned long long)v); break;
                }
                {
                    va::LibScope l;
                    switch (ty) {
                    case 0: *S.obj << (int)v; break;
                    case 1: *S.obj << (unsigned int)v; break;
                    case 2: *S.obj << (long)v; break;
                    case 3: *S.obj << (unsigned long)v; break;
                    case 4: *S.obj << (long long)v; break;
                    default: *S.obj << (unsigned long long)v; break;
                    }
                }
                S.model += want; c.label("integer"); w.note("%d<<int(%s); ", i, want.c_str()); break; }
            case 17: { static const double dv[] = {0.0, -0.0, 1.5, -2.25, 1e100, 1e-300, 3.14159265358979, 1e6, 123456789.0, 5e-324, 1.7976931348623157e308};
                double v = r.pick(dv); bool f = r.flag(); std::string want = f ? fmt_g((double)(float)v) : fmt_g(v);
                { va::LibScope l; if (f) *S.obj << (float)v; else *S.obj << v; }
                S.model += want; c.label("float"); w.note("%d<<%s(%s); ", i, f ? "float" : "double", want.c_str()); break; }
            case 18: { char ch = (char)r.u8(); { va::LibScope l; *S.obj << ch; } S.model.push_back(ch); w.note("%d<<char; ", i); break; }
            case 19: case 20: { std::string b = bytes(r, append_len(r, before) % 600, false); ST::string t = ST::string::from_validated(b.data(), b.size());
                { va::LibScope l; *S.obj << t; } S.model += b; w.note("%d<<ST::string(%zu); ", i, b.size()); break; }
            case 21: { std::string b = bytes(r, append_len(r, before) % 600, true); { va::LibScope l; if (r.flag()) *S.obj << b; else *S.obj << std::string_view(b); } S.model += b; w.note("%d<<std::string(%zu); ", i, b.size()); break; }
            case 22: { std::string b = bytes(r, r.range(0, 40), false); std::u8string t(reinterpret_cast<const char8_t *>(b.data()), b.size());
                { va::LibScope l; if (r.flag()) *S.obj << t; else *S.obj << std::u8string_view(t); } S.model += b; w.note("%d<<u8string(%zu); ", i, b.size()); break; }
            case 23: { va::LibScope l; S.obj->append(nullptr, 0); S.obj->append("", 0); S.obj->append_char('x', 0); *S.obj << (const char *)nullptr; } w.note("%d.append(nothing); ", i); break;
            case 24: case 25: {   // truncate to every relation of n to size
                size_t sz = S.model.size(); const size_t ns[] = {0, 1, sz / 2, sz ? sz - 1 : 0, sz, sz + 1, C - 1, C, C + 1, (size_t)-1};
                size_t n = r.pick(ns);
                { va::LibScope l; S.obj->truncate(n); } if (n < sz) S.model.resize(n);
                if (w.crossed) w.after_cross = true;
                c.label("truncate"); w.note("%d.truncate(%zu); ", i, n); break; }
            case 26: { { va::LibScope l; S.obj->truncate(); } S.model.clear(); if (w.crossed) w.after_cross = true; w.note("%d.truncate(); ", i); break; }
            case 27: case 28: { size_t sz = S.model.size(); const size_t ns[] = {0, 1, sz / 2, sz ? sz - 1 : 0, sz, sz + 1, (size_t)-1};
                size_t n = r.pick(ns);
                { va::LibScope l; S.obj->erase(n); } S.model.resize(n < sz ? sz - n : 0);
                if (w.crossed) w.after_cross = true;
                c.label("erase"); w.note("%d.erase(%zu); ", i, n); break; }
            case 29: case 30: {   // to_string in both readings
                const std::string &m = S.model;
                bool threw = false; std::string got;
                got.reserve(m.size() * 2 + 16);      // harness storage is never allocated inside a LibScope
                try { va::LibScope l; ST::string t = S.obj->to_string(); got.assign(t.c_str(), t.size()); if (t.c_str()[t.size()] != 0) return "to_string() result not NUL-terminated"; }
                catch (const ST::unicode_error &) { threw = true; }
                if (valid_utf8(m)) { if (threw) return "to_string() threw unicode_error although the stream holds valid UTF-8"; if (got != m) return "to_string() differs from the stream content (" + verif::quoted(got, 40) + " vs " + verif::quoted(m, 40) + ")"; }
                else if (!threw) return "to_string() returned although the stream content is not valid UTF-8 (default validation is check_validity)";
                { va::LibScope l; ST::string t = S.obj->to_string(true, ST::assume_valid); got.assign(t.c_str(), t.size()); }
                if (got != m) return "to_string(true, assume_valid) differs from the stream content";
                { va::LibScope l; ST::string t = S.obj->to_string(false); got.assign(t.c_str(), t.size()); }
                if (got != latin1_to_utf8(m)) return "to_string(false) is not the Latin-1 -> UTF-8 transcoding of the content";
                c.label("to_string"); w.note("%d.to_string(); ", i); break; }
            default: w.destroy(i); w.note("~%d; ", i); break;
            }
        } catch (...) {
            return "step " + verif::unum(k) + ": unexpected " + verif::describe_current_exception();
        }
        if (S.obj && before <= C && S.model.size() > C) { w.crossed = true; c.label("crossed-inobject-capacity"); }
        if (S.obj && S.model.size() > 4 * C) c.label("grew-past-4C");
        std::string why = w.check("after step");
        if (!why.empty()) return "step " + verif::unum(k) + " " + why;
    }
    for (int t = 0; t < NSLOT; t++) { w.destroy(t); std::string why = w.check("during teardown"); if (!why.empty()) return why; }
    if (va::live_blocks() != 0) return "leak: " + verif::unum(va::live_blocks()) + " heap block(s) still allocated after every stream was destroyed";
    return std::string();
}

}  // namespace

int verif_case(const uint8_t *data, size_t size, Case &c) {
    verif::Reader r(data, size, c);
    World w; w.want_log = c.want_text;
    std::string why = run(r, c, w);
    c.nontrivial = w.crossed && w.after_cross;
    if (c.want_text) c.text = "C16 C=" + verif::unum(C) + "  " + (w.log.size() > 900 ? w.log.substr(0, 900) + "..." : w.log);
    va::reset();
    if (!why.empty()) return c.fail(why);
    return verif::CASE_OK;
}

long verif_enumerate(int, int, int, verif::EnumReport &) { return 0; }

void verif_corpus(std::vector<std::vector<uint8_t>> &out) {
    out.push_back({0, 0, 0, 4, 0, 0, 1, 1, 0, 2, 0, 0, 4, 0, 0, 0, 3, 0});   // create, append to C, move-construct, append to the moved-from stream
    out.push_back({0, 0, 0, 8, 0, 0, 1, 3, 65, 24, 0, 0, 5, 29, 0, 0});
}
