// C16: string_stream content equals the concatenation of everything appended.
#include <string_theory/string_stream>

#include <cstdarg>
#include <filesystem>
#include <string>
#include <string_view>

#include "common/alloc_track.h"
#include "common/verif.h"
#include "gen/unit_gen.h"
#include "ref/ref_unicode.h"

using verif::Case;
namespace va = verif::alloc;

const verif::Info verif_info = {
    "C16", 600,
    "histories of 1..80 operations over 3 heap-placed ST::string_stream objects: append(ptr,len), append(cstr), append_char(ch,count), operator<< of "
    "const char*, wchar_t/char16_t/char32_t text (valid), every integer type incl. extremes, float/double, char, ST::string, std strings and views; "
    "truncate(n)/erase(n) for every relation of n to size; move construction and move assignment between distinct streams in every storage mode; reads; "
    "destroy. Append sizes are chosen so cumulative sizes land on C-1, C, C+1, 2C-1, 2C, 2C+1, 4C.. (C = in-object capacity) and single appends span "
    "several doublings. Oracle: std::string model per stream; after every step size() and raw_buffer()[0,size) equal the model; to_string(true) equals the "
    "bytes when they are valid UTF-8 else throws unicode_error; to_string(false) is the Latin-1 -> UTF-8 transcoding; a moved-from stream is empty and "
    "usable; storage is in-object or an exclusively owned live heap block; no leak / double free. Non-trivial: the history crosses the in-object "
    "capacity and has a truncate/erase/move afterwards. "
    "Extended operation table (first input byte >= 80, ~69% of the generated histories; bytes 0..79 keep the original table): operator<< of const char8_t* (and its null pointer), std::u8string / "
    "u8string_view up to 3000 bytes with NULs, string_view / wstring_view / u16string_view / u32string_view / u8string_view over exact-size heap blocks that are NOT followed by a terminator, large "
    "ST::string and std::string temporaries, chained append(..).append(..); wide / UTF-16 / UTF-32 text of 255..4096 code points (1..4-byte characters, surrogate pairs) and short text with embedded "
    "U+0000, each as C string, basic_string and view; ST::char_buffer / wchar_buffer / utf16_buffer / utf32_buffer / ST::null; std::filesystem::path (a//b, //server/x, long, non-ASCII; model = the bytes "
    "it was built from); 27 ways of appending nothing (zero lengths, null pointers of every width, default-constructed views, empty strings); append_char with counts 4096..65535; a number of every "
    "integer type, float or double written when the stream holds exactly capacity-k bytes, k = 0..21, capacity = 256..8192 reached from a fresh in-object state (the stream is reset by assigning an empty "
    "temporary), followed by more text; short, unsigned short, wchar_t, char16_t, char32_t, char8_t and bool values (they reach operator<<(int/unsigned) by promotion; skipped if the class declares an "
    "overload of its own); truncate/erase with every n followed by an append that lands the size on 256, 512, .. 4096 or one off; to_string(true|false, check_validity|substitute_invalid|assume_valid) "
    "(substitute_invalid on ill-formed content: each offending byte becomes U+FFFD, the reading of C02); a = move(b); b = move(a) chains with appends in between; a stream moved from and refilled 2..10 "
    "times while the receiving stream stays intact; assignment from a temporary holding 0, 5, C-1, C, C+1, 3C bytes; one chained << expression over seven overloads returning the stream itself; appends whose growth allocation fails (bad_alloc propagates, the state the stream then reports is adopted and must "
    "stay valid: no foreign or double free, no write outside its storage in the rest of the history). Enumerated: big streams of 64 KiB .. 8 MiB (32 MiB thorough), see verif_enumerate.",
    true, "exploration"};

namespace {

typedef ST::string_stream SS;
enum { NSLOT = 3 };
const size_t C = ST_STACK_STRING_SIZE;

struct Slot { SS *obj = nullptr; void *raw = nullptr; std::string model; };

struct World {
    Slot s[NSLOT];
    std::string log; bool want_log = false;
    bool crossed = false, after_cross = false;
    std::vector<const char *> labs;          // distinct labels of this history, in order of first occurrence
    void lab(const char *l) { for (const char *x : labs) if (x == l || !strcmp(x, l)) return; labs.push_back(l); }

    SS *place(int i) { s[i].raw = ::malloc(sizeof(SS)); memset(s[i].raw, 0xEE, sizeof(SS)); return static_cast<SS *>(s[i].raw); }
    void destroy(int i) { if (!s[i].obj) return; { va::LibScope l; s[i].obj->~SS(); } memset(s[i].raw, 0xDD, sizeof(SS)); ::free(s[i].raw); s[i].raw = nullptr; s[i].obj = nullptr; }
    bool inside(int i, const void *p) const { const char *lo = (const char *)s[i].raw; return (const char *)p >= lo && (const char *)p < lo + sizeof(SS); }
    void note(const char *fmt, ...) __attribute__((format(printf, 2, 3))) {
        if (!want_log) return;
        char b[200]; va_list ap; va_start(ap, fmt); vsnprintf(b, sizeof b, fmt, ap); va_end(ap); log += b;
    }
    std::string check(const char *when) {
        char msg[300];
        for (int i = 0; i < NSLOT; i++) {
            if (!s[i].obj) continue;
            const SS &st = *s[i].obj; const std::string &m = s[i].model;
            if (st.size() != m.size()) { snprintf(msg, sizeof msg, "%s: stream %d reports size %zu, the appended bytes number %zu", when, i, st.size(), m.size()); return msg; }
            const char *d = st.raw_buffer();
            if (!d) { snprintf(msg, sizeof msg, "%s: stream %d raw_buffer() is null", when, i); return msg; }
            if (inside(i, d)) {
                if (d + m.size() > (const char *)s[i].raw + sizeof(SS)) { snprintf(msg, sizeof msg, "%s: stream %d keeps %zu bytes in-object but they do not fit", when, i, m.size()); return msg; }
            } else {
                for (int j = 0; j < NSLOT; j++) if (j != i && s[j].raw && inside(j, d)) { snprintf(msg, sizeof msg, "%s: stream %d raw_buffer() points into stream %d", when, i, j); return msg; }
                if (!va::owns(d, m.size())) { snprintf(msg, sizeof msg, "%s: stream %d (size %zu) raw_buffer() is neither in-object nor the start of a live heap block large enough", when, i, m.size()); return msg; }
                for (int j = 0; j < i; j++) if (s[j].obj && s[j].obj->raw_buffer() == d) { snprintf(msg, sizeof msg, "%s: streams %d and %d share one heap block", when, j, i); return msg; }
            }
            if (memcmp(d, m.data(), m.size()) != 0) {
                size_t k = 0; while (d[k] == m[k]) k++;
                snprintf(msg, sizeof msg, "%s: stream %d byte %zu of %zu is %02X, the model has %02X", when, i, k, m.size(), (unsigned char)d[k], (unsigned char)m[k]); return msg;
            }
        }
        if (const char *e = va::error()) { snprintf(msg, sizeof msg, "%s: %s", when, e); va::clear_error(); return msg; }
        return std::string();
    }
    ~World() { for (int i = 0; i < NSLOT; i++) if (s[i].raw) { if (s[i].obj) { try { va::LibScope l; s[i].obj->~SS(); } catch (...) {} } ::free(s[i].raw); } }
};

bool valid_utf8(const std::string &b) {
    ref::Units u; for (unsigned char ch : b) u.push_back(ch);
    for (const ref::Item &it : ref::decode(ref::UTF8, u)) if (!it.ok) return false;
    return true;
}
std::string latin1_to_utf8(const std::string &b) {
    std::vector<uint32_t> sc; for (unsigned char ch : b) sc.push_back(ch);
    ref::Units u = ref::encode(ref::UTF8, sc); return std::string(u.begin(), u.end());
}
std::string fmt_g(double v) { char b[64]; snprintf(b, sizeof b, "%g", v); return b; }

// length for the next append: lands the cumulative size on a capacity boundary, or is small, or spans several doublings
size_t append_len(verif::Reader &r, size_t cur) {
    static const size_t targets[] = {C - 1, C, C + 1, 2 * C - 1, 2 * C, 2 * C + 1, 4 * C - 1, 4 * C, 4 * C + 1, 8 * C, 8 * C + 1, 16 * C + 3};
    switch (r.range(0, 3)) {
    case 0: return r.range(0, 20);
    case 1: { size_t t = r.pick(targets); return t > cur ? t - cur : r.range(0, 5); }
    case 2: return r.range(0, 300);
    default: { static const size_t big[] = {3 * C, 5 * C + 1, 9 * C, 20 * C + 7}; return r.pick(big); }
    }
}
std::string bytes(verif::Reader &r, size_t n, bool allow_high) {
    std::string b; uint8_t st = r.u8();
    for (size_t i = 0; i < n; i++) {
        char ch = (char)('a' + ((st + i) % 26));
        if ((st & 0x30) == 0x10 && i % 11 == 5) ch = ' ';
        if (allow_high && (st & 0xC0) == 0x40 && i % 9 == 4) ch = (char)0xE9;            // not valid UTF-8 on its own
        if ((st & 0xC0) == 0x80 && i % 13 == 6) ch = 0;                                  // embedded NUL
        b.push_back(ch);
    }
    return b;
}

// ----- extended operation table (codes 32..48) ---------------------------------------------------------------------------
const int kNumOps = 50;

// A temporary stream in its own exact-size heap block (writing past the object is an ASan report).
struct Temp {
    void *raw; SS *obj = nullptr;
    Temp() { raw = ::malloc(sizeof(SS)); memset(raw, 0xEE, sizeof(SS)); }
    ~Temp() { if (obj) { try { va::LibScope l; obj->~SS(); } catch (...) {} } ::free(raw); }
    Temp(const Temp &) = delete; Temp &operator=(const Temp &) = delete;
    std::string same(const std::string &m, const char *what) const {
        char msg[300];
        if (obj->size() != m.size()) { snprintf(msg, sizeof msg, "%s reports size %zu, the bytes it must hold number %zu", what, obj->size(), m.size()); return msg; }
        const char *d = obj->raw_buffer();
        if (!d) { snprintf(msg, sizeof msg, "%s raw_buffer() is null", what); return msg; }
        bool in = d >= (const char *)raw && d < (const char *)raw + sizeof(SS);
        if (in ? d + m.size() > (const char *)raw + sizeof(SS) : !va::owns(d, m.size())) { snprintf(msg, sizeof msg, "%s (size %zu) raw_buffer() is neither in-object nor the start of a live heap block large enough", what, m.size()); return msg; }
        if (memcmp(d, m.data(), m.size()) != 0) { size_t k = 0; while (d[k] == m[k]) k++; snprintf(msg, sizeof msg, "%s byte %zu of %zu is %02X, the model has %02X", what, k, m.size(), (unsigned char)d[k], (unsigned char)m[k]); return msg; }
        return std::string();
    }
};

// scalar values of a long text: 255..4096 code points from a palette with 1..4-byte characters (UTF-16: surrogate pairs)
std::vector<uint32_t> long_scalars(verif::Reader &r) {
    static const uint16_t lens[] = {257, 300, 1023, 1024, 1025, 1500, 4096, 256, 255, 2048};
    static const uint32_t pal[] = {'a', 'b', 0xE9, 'c', 0x20AC, 'd', 0x1F600, 'e', 0x10FFFF, 'f', 0xFFFD, 0x7FF, 0x800, 0xFFFF, 0x10000};
    size_t n = r.pick(lens); uint8_t style = r.u8();
    std::vector<uint32_t> v;
    for (size_t i = 0; i < n; i++) v.push_back((style & 3) == 0 ? (uint32_t)('a' + i % 26) : pal[(i * (1 + (style >> 6)) + style) % 15]);
    return v;
}
std::string utf8_of(const std::vector<uint32_t> &sc) { ref::Units u = ref::encode(ref::UTF8, sc); return std::string(u.begin(), u.end()); }

// `s << text` for text of width wd (0 char16_t, 1 char32_t, 2 wchar_t) in form 0 C string (exact-size NUL-terminated block),
// 1 std::basic_string, 2 std::basic_string_view over an exact-size block that is NOT followed by a terminator
template <class Ch> void put_units(SS &s, const std::basic_string<Ch> &t, int form) {
    if (form == 0) { verif::Exact<Ch> e(t.data(), t.size(), true); va::LibScope l; s << (const Ch *)e.data(); }
    else if (form == 1) { va::LibScope l; s << t; }
    else { verif::Exact<Ch> e(t.data(), t.size(), false); va::LibScope l; s << std::basic_string_view<Ch>(e.data(), e.size()); }
}
void put_wide(SS &s, const std::vector<uint32_t> &sc, int wd, int form) {
    if (wd == 0) { std::u16string t; for (uint32_t x : ref::encode(ref::UTF16, sc)) t.push_back((char16_t)x); put_units(s, t, form); }
    else if (wd == 1) put_units(s, std::u32string(sc.begin(), sc.end()), form);
    else if (sizeof(wchar_t) == 4) put_units(s, std::wstring(sc.begin(), sc.end()), form);
    else { std::wstring t; for (uint32_t x : ref::encode(ref::UTF16, sc)) t.push_back((wchar_t)x); put_units(s, t, form); }
}

// Does the stream class declare operator<< for exactly T?  (If not, `s << T` is the promoted integer overload.)
template <class T> concept ExactInserter = requires { static_cast<SS &(SS::*)(T)>(&SS::operator<<); };
// s << v for a type that reaches the stream through the integral promotions: the model is the decimal text of the promoted value.
// Returns false (nothing done) when the class has an overload of its own for T - its text is then not "an integer".
template <class T> bool put_promoted(SS &s, T v, std::string &want) {
    if constexpr (ExactInserter<T>) { (void)s; (void)v; (void)want; return false; }
    else { want = std::to_string(+v); va::LibScope l; s << v; return true; }
}

std::string substitute_model(const std::string &m) {       // C02's reading of substitute_invalid for UTF-8 kept as UTF-8
    ref::Units u; for (unsigned char ch : m) u.push_back(ch);
    ref::Expect e = ref::expect(ref::UTF8, ref::UTF8, ref::SUBSTITUTE, u);
    return std::string(e.out.begin(), e.out.end());
}

// `ext`: the extended operation table (first input byte >= 80; bytes 0..79 keep the original 32-entry table and its decoding).
std::string run(verif::Reader &r, Case &c, World &w, bool ext) {
    va::reset();
    size_t nops = 1 + r.range(0, 79);
    if (ext) w.lab("x:extended-op-table");
    for (size_t k = 0; k < nops; k++) {
        int op = (int)r.range(0, ext ? 63 : 31), i = (int)r.idx(NSLOT), j = (int)r.idx(NSLOT);
        if (op >= kNumOps) op -= 32;                          // unassigned codes of the extended table fall back to the original operation
        Slot &S = w.s[i];
        if (op >= 2 && !S.obj) op = 0;                       // anything on a missing stream becomes "create"
        size_t before = S.obj ? S.model.size() : 0;
        if (S.obj && S.model.size() > 65536 && ((op >= 4 && op <= 23) || op >= 32)) op = 24;   // keep histories bounded: truncate instead
        try {
            switch (op) {
            case 0: case 1: if (S.obj) continue; { SS *q = w.place(i); va::LibScope l; S.obj = new (q) SS(); } S.model.clear(); w.note("%d=SS(); ", i); break;
            case 2: {   // move-construct a new stream from an existing one
                int t = -1; for (int x = 0; x < NSLOT; x++) if (!w.s[x].obj) t = x;
                if (t < 0) continue;
                { SS *q = w.place(t); va::LibScope l; w.s[t].obj = new (q) SS(std::move(*S.obj)); }
                w.s[t].model = S.model; S.model.clear();
                w.lab(w.s[t].model.size() > C ? "move-construct-heap" : "move-construct-inobject");
                if (w.crossed) w.after_cross = true;
                w.note("%d=SS(move %d); ", t, i); break; }
            case 3: {   // move-assign between distinct streams
                if (i == j || !w.s[j].obj) continue;
                { va::LibScope l; *S.obj = std::move(*w.s[j].obj); }
                w.lab((S.model.size() > C ? (w.s[j].model.size() > C ? "move-assign heap<-heap" : "move-assign heap<-inobject") : (w.s[j].model.size() > C ? "move-assign inobject<-heap" : "move-assign inobject<-inobject")));
                S.model = w.s[j].model; w.s[j].model.clear();
                if (w.crossed) w.after_cross = true;
                w.note("%d=move %d; ", i, j); break; }
            case 4: case 5: case 6: { std::string b = bytes(r, append_len(r, before), true); verif::Exact<char> e(b.data(), b.size());
                { va::LibScope l; S.obj->append(e.data(), e.size()); } S.model += b; w.note("%d.append(%zu); ", i, b.size()); break; }
            case 7: { std::string b = bytes(r, append_len(r, before) % 400, true); for (char &ch : b) if (!ch) ch = '0'; verif::Exact<char> e(b.data(), b.size(), true);
                { va::LibScope l; S.obj->append(e.data()); } S.model += b; w.note("%d.append(cstr %zu); ", i, b.size()); break; }
            case 8: case 9: { size_t n = append_len(r, before); char ch = (char)r.u8();
                { va::LibScope l; S.obj->append_char(ch, n); } S.model.append(n, ch); w.note("%d.append_char(%02X,%zu); ", i, (unsigned char)ch, n); break; }
            case 10: { std::string b = bytes(r, r.range(0, 40), true); for (char &ch : b) if (!ch) ch = '0'; verif::Exact<char> e(b.data(), b.size(), true);
                { va::LibScope l; *S.obj << e.data(); } S.model += b; w.note("%d<<cstr(%zu); ", i, b.size()); break; }
            case 11: case 12: case 13: {   // wide text in three widths, pointer and STL forms
                std::vector<uint32_t> sc = ugen::scalars(r, 60); for (uint32_t &v : sc) if (!v) v = 0x20AC;
                ref::Units u8 = ref::encode(ref::UTF8, sc); std::string want(u8.begin(), u8.end());
                int form = (int)r.range(0, 2);
                if (op == 11) { std::u16string t; for (uint32_t x : ref::encode(ref::UTF16, sc)) t.push_back((char16_t)x); verif::Exact<char16_t> e(t.data(), t.size(), true);
                    va::LibScope l; if (form == 0) *S.obj << e.data(); else if (form == 1) *S.obj << t; else *S.obj << std::u16string_view(t); }
                else if (op == 12) { std::u32string t(sc.begin(), sc.end()); verif::Exact<char32_t> e(t.data(), t.size(), true);
                    va::LibScope l; if (form == 0) *S.obj << e.data(); else if (form == 1) *S.obj << t; else *S.obj << std::u32string_view(t); }
                else { std::wstring t(sc.begin(), sc.end()); verif::Exact<wchar_t> e(t.data(), t.size(), true);
                    va::LibScope l; if (form == 0) *S.obj << e.data(); else if (form == 1) *S.obj << t; else *S.obj << std::wstring_view(t); }
                S.model += want; w.lab("wide-text"); w.note("%d<<wide%d(%zu scalars); ", i, op == 11 ? 16 : 32, sc.size()); break; }
            case 14: case 15: case 16: {   // integers of every type incl. extremes
                static const long long edges[] = {0, 1, -1, 9, 10, -10, 127, -128, 255, 32767, -32768, 65535, 2147483647LL, -2147483647LL - 1, 4294967295LL, 9223372036854775807LL, -9223372036854775807LL - 1};
                long long v = r.flag() ? r.pick(edges) : (long long)r.bits64();
                std::string want; int ty = (int)r.range(0, 5);
                switch (ty) {
                case 0: want = std::to_string((int)v); break;
                case 1: want = std::to_string((unsigned int)v); break;
                case 2: want = std::to_string((long)v); break;
                case 3: want = std::to_string((unsigned long)v); break;
                case 4: want = std::to_string((long long)v); break;
                default: want = std::to_string((unsigned long long)v); break;
                }
                {
                    va::LibScope l;
                    switch (ty) {
                    case 0: *S.obj << (int)v; break;
                    case 1: *S.obj << (unsigned int)v; break;
                    case 2: *S.obj << (long)v; break;
                    case 3: *S.obj << (unsigned long)v; break;
                    case 4: *S.obj << (long long)v; break;
                    default: *S.obj << (unsigned long long)v; break;
                    }
                }
                S.model += want; w.lab("integer"); w.note("%d<<int(%s); ", i, want.c_str()); break; }
            case 17: { static const double dv[] = {0.0, -0.0, 1.5, -2.25, 1e100, 1e-300, 3.14159265358979, 1e6, 123456789.0, 5e-324, 1.7976931348623157e308};
                double v = r.pick(dv); bool f = r.flag(); std::string want = f ? fmt_g((double)(float)v) : fmt_g(v);
                { va::LibScope l; if (f) *S.obj << (float)v; else *S.obj << v; }
                S.model += want; w.lab("float"); w.note("%d<<%s(%s); ", i, f ? "float" : "double", want.c_str()); break; }
            case 18: { char ch = (char)r.u8(); { va::LibScope l; *S.obj << ch; } S.model.push_back(ch); w.note("%d<<char; ", i); break; }
            case 19: case 20: { std::string b = bytes(r, append_len(r, before) % 600, op == 20);      // op 20: the ST::string may hold bytes that are not valid UTF-8 (a cut character, from_validated data)
                ST::string t = ST::string::from_validated(b.data(), b.size());
                { va::LibScope l; *S.obj << t; } S.model += b; w.note("%d<<ST::string(%zu); ", i, b.size()); break; }
            case 21: { std::string b = bytes(r, append_len(r, before) % 600, true); { va::LibScope l; if (r.flag()) *S.obj << b; else *S.obj << std::string_view(b); } S.model += b; w.note("%d<<std::string(%zu); ", i, b.size()); break; }
            case 22: { std::string b = bytes(r, r.range(0, 40), false); std::u8string t(reinterpret_cast<const char8_t *>(b.data()), b.size());
                { va::LibScope l; if (r.flag()) *S.obj << t; else *S.obj << std::u8string_view(t); } S.model += b; w.note("%d<<u8string(%zu); ", i, b.size()); break; }
            case 23: { va::LibScope l; S.obj->append(nullptr, 0); S.obj->append("", 0); S.obj->append_char('x', 0); *S.obj << (const char *)nullptr; } w.note("%d.append(nothing); ", i); break;
            case 24: case 25: {   // truncate to every relation of n to size
                size_t sz = S.model.size(); const size_t ns[] = {0, 1, sz / 2, sz ? sz - 1 : 0, sz, sz + 1, C - 1, C, C + 1, (size_t)-1};
                size_t n = r.pick(ns);
                { va::LibScope l; S.obj->truncate(n); } if (n < sz) S.model.resize(n);
                if (w.crossed) w.after_cross = true;
                w.lab("truncate"); w.note("%d.truncate(%zu); ", i, n); break; }
            case 26: { { va::LibScope l; S.obj->truncate(); } S.model.clear(); if (w.crossed) w.after_cross = true; w.note("%d.truncate(); ", i); break; }
            case 27: case 28: { size_t sz = S.model.size(); const size_t ns[] = {0, 1, sz / 2, sz ? sz - 1 : 0, sz, sz + 1, (size_t)-1};
                size_t n = r.pick(ns);
                { va::LibScope l; S.obj->erase(n); } S.model.resize(n < sz ? sz - n : 0);
                if (w.crossed) w.after_cross = true;
                w.lab("erase"); w.note("%d.erase(%zu); ", i, n); break; }
            case 29: case 30: {   // to_string in both readings
                const std::string &m = S.model;
                bool threw = false; std::string got;
                got.reserve(m.size() * 2 + 16);      // harness storage is never allocated inside a LibScope
                try { va::LibScope l; ST::string t = S.obj->to_string(); got.assign(t.c_str(), t.size()); if (t.c_str()[t.size()] != 0) return "to_string() result not NUL-terminated"; }
                catch (const ST::unicode_error &) { threw = true; }
                if (valid_utf8(m)) { if (threw) return "to_string() threw unicode_error although the stream holds valid UTF-8"; if (got != m) return "to_string() differs from the stream content (" + verif::quoted(got, 40) + " vs " + verif::quoted(m, 40) + ")"; }
                else if (!threw) return "to_string() returned although the stream content is not valid UTF-8 (default validation is check_validity)";
                { va::LibScope l; ST::string t = S.obj->to_string(true, ST::assume_valid); got.assign(t.c_str(), t.size()); }
                if (got != m) return "to_string(true, assume_valid) differs from the stream content";
                { va::LibScope l; ST::string t = S.obj->to_string(false); got.assign(t.c_str(), t.size()); }
                if (got != latin1_to_utf8(m)) return "to_string(false) is not the Latin-1 -> UTF-8 transcoding of the content";
                w.lab("to_string"); w.note("%d.to_string(); ", i); break; }
            // ---------------------------------------------------------------- extended table
            case 32: {   // char8_t C string (and the null pointer)
                if (r.chance(32)) { { va::LibScope l; *S.obj << (const char8_t *)nullptr; } w.lab("x:null-or-zero-length"); w.note("%d<<(char8_t*)null; ", i); break; }
                std::string b = bytes(r, append_len(r, before) % 600, true); for (char &ch : b) if (!ch) ch = '0';
                verif::Exact<char> e(b.data(), b.size(), true);
                { va::LibScope l; *S.obj << reinterpret_cast<const char8_t *>(e.data()); }
                S.model += b; w.lab("x:char8_t-text"); w.note("%d<<u8cstr(%zu); ", i, b.size()); break; }
            case 33: {   // std::u8string / u8string_view: long, with NULs, the view over an unterminated exact-size block
                std::string b = bytes(r, append_len(r, before) % 3000, true); int form = (int)r.range(0, 2);
                if (form == 0) { std::u8string t(reinterpret_cast<const char8_t *>(b.data()), b.size()); va::LibScope l; *S.obj << t; }
                else if (form == 1) { verif::Exact<char> e(b.data(), b.size()); va::LibScope l; *S.obj << std::u8string_view(reinterpret_cast<const char8_t *>(e.data()), e.size()); }
                else { std::u8string t(reinterpret_cast<const char8_t *>(b.data()), b.size()); va::LibScope l; *S.obj << std::move(t); }
                S.model += b; w.lab("x:char8_t-text"); w.note("%d<<u8string/%d(%zu); ", i, form, b.size()); break; }
            case 34: {   // narrow text of any size: string_view over an unterminated block, large ST::string, std::string temporary, chained append
                int form = (int)r.range(0, 3);
                std::string b = bytes(r, append_len(r, before), form != 1);
                if (form == 0) { verif::Exact<char> e(b.data(), b.size()); va::LibScope l; *S.obj << std::string_view(e.data(), e.size()); }
                else if (form == 1) { ST::string t = ST::string::from_validated(b.data(), b.size()); va::LibScope l; *S.obj << t; }
                else if (form == 2) { std::string t(b); va::LibScope l; *S.obj << std::move(t); }
                else { size_t h = b.size() / 2; verif::Exact<char> e1(b.data(), h), e2(b.data() + h, b.size() - h); va::LibScope l; S.obj->append(e1.data(), e1.size()).append(e2.data(), e2.size()).append_char('#', 0); }
                S.model += b; w.lab("x:unterminated-view-or-large-string"); w.note("%d<<narrow/%d(%zu); ", i, form, b.size()); break; }
            case 35: case 36: {   // wide / UTF-16 / UTF-32 text: 35 long (255..4096 code points), 36 short with embedded U+0000; three forms each
                std::vector<uint32_t> sc; int wd = (int)r.range(0, 2), form = (int)r.range(0, 2);
                if (op == 35) sc = long_scalars(r); else { sc = ugen::scalars(r, 60); if (form != 0 && r.flag()) sc.insert(sc.begin() + (long)r.idx(sc.size() + 1), 0u); }
                if (form == 0) for (uint32_t &v : sc) if (!v) v = 0x20AC;          // a C string ends at its first NUL
                std::string want = utf8_of(sc);
                put_wide(*S.obj, sc, wd, form);
                S.model += want; w.lab(op == 35 ? "x:wide-text>=255-code-points" : "x:wide-text-exact-view/NUL");
                w.note("%d<<wide%d/%d(%zu scalars); ", i, wd, form, sc.size()); break; }
            case 37: {   // ST buffers and ST::null (implicit conversion to ST::string)
                std::vector<uint32_t> sc = r.chance(40) ? long_scalars(r) : ugen::scalars(r, 300);
                std::string want = utf8_of(sc); int kind = (int)r.range(0, 4);
                if (kind == 0) { ST::char_buffer b(want.data(), want.size()); va::LibScope l; *S.obj << b; }
                else if (kind == 1) { std::wstring t(sc.begin(), sc.end()); if (sizeof(wchar_t) != 4) { t.clear(); for (uint32_t x : ref::encode(ref::UTF16, sc)) t.push_back((wchar_t)x); } ST::wchar_buffer b(t.data(), t.size()); va::LibScope l; *S.obj << b; }
                else if (kind == 2) { std::u16string t; for (uint32_t x : ref::encode(ref::UTF16, sc)) t.push_back((char16_t)x); ST::utf16_buffer b(t.data(), t.size()); va::LibScope l; *S.obj << b; }
                else if (kind == 3) { std::u32string t(sc.begin(), sc.end()); ST::utf32_buffer b(t.data(), t.size()); va::LibScope l; *S.obj << b; }
                else { want.clear(); va::LibScope l; *S.obj << ST::null; }
                S.model += want; w.lab("x:ST-buffer"); w.note("%d<<buffer/%d(%zu bytes); ", i, kind, want.size()); break; }
            case 38: {   // std::filesystem::path: the bytes of its u8string(), separators kept as written
                static const char *shapes[] = {"a//b", "//server/x", "/", "", "a/", "./a/../b", "///", "dir/sub//file.txt", "a/./b", ".."};
                std::string b;
                if (r.flag()) b = r.pick(shapes);
                else { b = utf8_of(r.chance(60) ? long_scalars(r) : ugen::scalars(r, 300)); for (char &ch : b) if (!ch) ch = '/'; if (b.size() > 4 && r.flag()) { b[b.size() / 2] = '/'; b[b.size() / 2 + 1] = '/'; } }
                std::filesystem::path pth(b);
                std::u8string back = pth.u8string();
                if (std::string(reinterpret_cast<const char *>(back.data()), back.size()) != b) { if (!valid_utf8(b)) break; return "harness: std::filesystem::path did not keep its bytes"; }
                { va::LibScope l; *S.obj << pth; }
                S.model += b; w.lab("x:filesystem-path"); w.note("%d<<path(%zu); ", i, b.size()); break; }
            case 39: {   // every way of appending nothing: zero lengths, null pointers, default-constructed views, empty strings
                verif::Exact<char> z(nullptr, 0);
                std::string es; std::wstring ew; std::u16string e16; std::u32string e32; std::u8string e8; ST::string est;
                verif::Exact<wchar_t> zw(nullptr, 0, true); verif::Exact<char16_t> z16(nullptr, 0, true); verif::Exact<char32_t> z32(nullptr, 0, true); verif::Exact<char> z8(nullptr, 0, true);
                {
                    va::LibScope l;
                    S.obj->append(z.data(), 0).append(nullptr).append(nullptr, ST_AUTO_SIZE).append(nullptr, 0).append_char('x', 0);
                    *S.obj << (const wchar_t *)nullptr << (const char16_t *)nullptr << (const char32_t *)nullptr << (const char8_t *)nullptr << (const char *)nullptr;
                    *S.obj << std::string_view() << std::wstring_view() << std::u16string_view() << std::u32string_view() << std::u8string_view();
                    *S.obj << es << ew << e16 << e32 << e8 << est;
                    *S.obj << (const char *)z8.data() << (const wchar_t *)zw.data() << (const char16_t *)z16.data() << (const char32_t *)z32.data() << reinterpret_cast<const char8_t *>(z8.data());
                    S.obj->append(z8.data());
                }
                w.lab("x:null-or-zero-length"); w.note("%d<<nothing x27; ", i); break; }
            case 40: {   // append_char with large counts
                static const size_t counts[] = {4096, 8191, 8192, 8193, 16384, 32768, 65535, 3 * C + 1, 1};
                size_t n = r.pick(counts); char ch = (char)r.u8();
                { va::LibScope l; S.obj->append_char(ch, n); } S.model.append(n, ch);
                w.lab("x:append_char>=4096"); w.note("%d.append_char(%02X,%zu); ", i, (unsigned char)ch, n); break; }
            case 41: {   // a number written when the stream holds exactly capacity-k bytes (k = 0..21) at a capacity 256, 512, .. 8192; more text follows
                static const size_t caps[] = {C, 2 * C, 4 * C, 8 * C, 16 * C, 32 * C};
                const size_t cap = r.pick(caps), kk = r.range(0, 21), target = cap - kk;
                if (S.model.size() > target || r.flag()) {        // from a fresh in-object state, so that the capacity in force after the fill is exactly `cap`
                    { va::LibScope l; *S.obj = SS(); } S.model.clear();
                    std::string why0 = w.check("after assigning an empty temporary"); if (!why0.empty()) return "step " + verif::unum(k) + " " + why0;
                }
                { size_t need = target - S.model.size(); { va::LibScope l; S.obj->append_char('.', need); } S.model.append(need, '.'); }
                { std::string why0 = w.check("after filling to capacity-k"); if (!why0.empty()) return "step " + verif::unum(k) + " " + why0; }
                static const long long vals[] = {-9223372036854775807LL - 1, 9223372036854775807LL, -1, 0, -2147483647LL - 1, 2147483647LL, 1234567890123456789LL, -123456789012LL, 4294967295LL, -32768, 99999, 7};
                long long v = r.flag() ? r.pick(vals) : (long long)r.bits64();
                int ty = (int)r.range(0, 7); std::string want;
                switch (ty) {
                case 0: want = std::to_string((int)v); { va::LibScope l; *S.obj << (int)v; } break;
                case 1: want = std::to_string((unsigned int)v); { va::LibScope l; *S.obj << (unsigned int)v; } break;
                case 2: want = std::to_string((long)v); { va::LibScope l; *S.obj << (long)v; } break;
                case 3: want = std::to_string((unsigned long)v); { va::LibScope l; *S.obj << (unsigned long)v; } break;
                case 4: want = std::to_string((long long)v); { va::LibScope l; *S.obj << (long long)v; } break;
                case 5: want = std::to_string((unsigned long long)v); { va::LibScope l; *S.obj << (unsigned long long)v; } break;
                case 6: { static const double dv[] = {-1.7976931348623157e308, 5e-324, -123456.5, 1e21, 0.1}; double d = r.pick(dv); want = fmt_g(d); { va::LibScope l; *S.obj << d; } break; }
                default: { static const float fv[] = {-3.4028235e38f, 1.17549435e-38f, -0.5f, 16777216.0f}; float f = r.pick(fv); want = fmt_g((double)f); { va::LibScope l; *S.obj << f; } break; }
                }
                S.model += want;
                { std::string why0 = w.check("after the number at capacity-k"); if (!why0.empty()) return "step " + verif::unum(k) + " " + why0; }
                { std::string tail = bytes(r, r.range(0, 30), false); for (char &ch : tail) if (!ch) ch = '0'; verif::Exact<char> e(tail.data(), tail.size(), true); { va::LibScope l; *S.obj << e.data() << 'Z'; } S.model += tail; S.model += 'Z'; }
                w.lab("x:number-at-capacity-k"); w.note("%d:size=%zu-%zu<<num/%d(%s)<<..; ", i, cap, kk, ty, want.c_str()); break; }
            case 42: {   // types that reach the stream through the integral promotions: short, unsigned short, wchar_t, char16_t, char32_t, char8_t, bool
                uint32_t bits = r.bits32(); std::string want; bool done = false; int ty = (int)r.range(0, 6);
                switch (ty) {
                case 0: done = put_promoted(*S.obj, (short)bits, want); break;
                case 1: done = put_promoted(*S.obj, (unsigned short)bits, want); break;
                case 2: done = put_promoted(*S.obj, (wchar_t)bits, want); break;
                case 3: done = put_promoted(*S.obj, (char16_t)bits, want); break;
                case 4: done = put_promoted(*S.obj, (char32_t)bits, want); break;
                case 5: done = put_promoted(*S.obj, (char8_t)bits, want); break;
                default: done = put_promoted(*S.obj, (bool)(bits & 1), want); break;
                }
                if (!done) continue;
                S.model += want; w.lab("x:promoted-integer-type"); w.note("%d<<promoted/%d(%s); ", i, ty, want.c_str()); break; }
            case 43: {   // truncate / erase, then append so that the size lands exactly on 256, 512, .. 4096 or one off
                static const size_t marks[] = {C, 2 * C, 4 * C, 8 * C, 16 * C};
                const size_t target = r.pick(marks) + r.range(0, 2) - 1;
                size_t sz = S.model.size(); const size_t ns[] = {0, 1, sz / 2, sz ? sz - 1 : 0, sz, sz + 1, target > 3 ? target - 3 : 0, target, C};
                size_t n = r.pick(ns);
                if (r.flag()) { { va::LibScope l; S.obj->truncate(n); } if (n < sz) S.model.resize(n); w.note("%d.truncate(%zu)", i, n); }
                else { { va::LibScope l; S.obj->erase(n); } S.model.resize(n < sz ? sz - n : 0); w.note("%d.erase(%zu)", i, n); }
                if (w.crossed) w.after_cross = true;
                { std::string why0 = w.check("after truncate/erase"); if (!why0.empty()) return "step " + verif::unum(k) + " " + why0; }
                if (S.model.size() > target) { { va::LibScope l; S.obj->truncate(target); } S.model.resize(target); }
                std::string b = bytes(r, target - S.model.size(), true); int form = (int)r.range(0, 3);
                if (form == 0) { verif::Exact<char> e(b.data(), b.size()); va::LibScope l; S.obj->append(e.data(), e.size()); }
                else if (form == 1) { b.assign(b.size(), 'p'); va::LibScope l; S.obj->append_char('p', b.size()); }
                else if (form == 2) { va::LibScope l; *S.obj << b; }
                else { verif::Exact<char> e(b.data(), b.size()); va::LibScope l; *S.obj << std::string_view(e.data(), e.size()); }
                S.model += b; w.lab("x:truncate-then-land-on-2^n"); w.note("+%zu=%zu; ", b.size(), S.model.size()); break; }
            case 44: {   // to_string(utf8, validation) for both readings and every validation mode
                const std::string &m = S.model; const bool valid = valid_utf8(m);
                std::string got; got.reserve(m.size() * 3 + 16);
                static const ST::utf_validation_t modes[] = {ST::check_validity, ST::substitute_invalid, ST::assume_valid};
                static const char *mname[] = {"check_validity", "substitute_invalid", "assume_valid"};
                for (int mi = 0; mi < 3; mi++) {
                    bool threw = false;
                    try { va::LibScope l; ST::string t = S.obj->to_string(true, modes[mi]); got.assign(t.c_str(), t.size()); if (t.c_str()[t.size()] != 0) return "to_string() result not NUL-terminated"; }
                    catch (const ST::unicode_error &) { threw = true; }
                    std::string who = std::string("to_string(true, ") + mname[mi] + ")";
                    if (mi == 0) {
                        if (valid) { if (threw) return who + " threw unicode_error although the stream holds valid UTF-8"; if (got != m) return who + " differs from the stream content"; }
                        else if (!threw) return who + " returned although the stream content is not valid UTF-8";
                    } else {
                        if (threw) return who + " threw unicode_error";
                        if (mi == 2 || valid) { if (got != m) return who + " differs from the stream content (" + verif::quoted(got, 40) + " vs " + verif::quoted(m, 40) + ")"; }
                        else if (got != substitute_model(m)) return who + " is not the content with each offending byte replaced by U+FFFD (" + verif::quoted(got, 60) + " for " + verif::quoted(m, 60) + ")";
                    }
                    try { va::LibScope l; ST::string t = S.obj->to_string(false, modes[mi]); got.assign(t.c_str(), t.size()); }
                    catch (const ST::unicode_error &) { return std::string("to_string(false, ") + mname[mi] + ") threw unicode_error: Latin-1 text has no invalid bytes"; }
                    if (got != latin1_to_utf8(m)) return std::string("to_string(false, ") + mname[mi] + ") is not the Latin-1 -> UTF-8 transcoding of the content";
                }
                w.lab(valid ? "x:to_string-all-modes" : "x:to_string-all-modes-invalid-content"); w.note("%d.to_string(*,*); ", i); break; }
            case 45: {   // move-assignment chains between two live streams: a = move(b); b = move(a); ... with appends in between
                if (i == j || !w.s[j].obj) continue;
                Slot &T = w.s[j]; size_t rounds = 1 + r.range(0, 3);
                for (size_t q = 0; q < rounds; q++) {
                    { va::LibScope l; *S.obj = std::move(*T.obj); } S.model = T.model; T.model.clear();
                    { std::string why0 = w.check("after a = move(b)"); if (!why0.empty()) return "step " + verif::unum(k) + " " + why0; }
                    if (r.flag()) { std::string b = bytes(r, append_len(r, T.model.size()) % 700, false); { va::LibScope l; *T.obj << b; } T.model += b; }
                    { va::LibScope l; *T.obj = std::move(*S.obj); } T.model = S.model; S.model.clear();
                    { std::string why0 = w.check("after b = move(a)"); if (!why0.empty()) return "step " + verif::unum(k) + " " + why0; }
                    if (r.flag()) { std::string b = bytes(r, append_len(r, S.model.size()) % 700, false); { va::LibScope l; *S.obj << b; } S.model += b; }
                }
                if (w.crossed) w.after_cross = true;
                w.lab("x:move-assign-chain"); w.note("%d<=>%d x%zu; ", i, j, rounds); break; }
            case 46: {   // a stream that is moved from and refilled again and again
                size_t rounds = 2 + r.range(0, 8);
                for (size_t q = 0; q < rounds; q++) {
                    if (w.crossed) w.after_cross = true;
                    Temp t; std::string held = S.model;
                    { va::LibScope l; t.obj = new (t.raw) SS(std::move(*S.obj)); } S.model.clear();
                    { std::string why0 = t.same(held, "the stream constructed from the moved one"); if (!why0.empty()) return "step " + verif::unum(k) + " " + why0; }
                    { std::string why0 = w.check("after being moved from"); if (!why0.empty()) return "step " + verif::unum(k) + " " + why0; }
                    std::string b = bytes(r, append_len(r, 0), true); verif::Exact<char> e(b.data(), b.size());
                    { va::LibScope l; S.obj->append(e.data(), e.size()); } S.model += b;
                    { std::string why0 = w.check("after refilling the moved-from stream"); if (!why0.empty()) return "step " + verif::unum(k) + " " + why0; }
                    { std::string why0 = t.same(held, "the stream constructed from the moved one (after the source was refilled)"); if (!why0.empty()) return "step " + verif::unum(k) + " " + why0; }
                    if (S.model.size() > C) w.crossed = true;
                }
                w.lab("x:moved-from-reused"); w.note("%d moved-from+refilled x%zu; ", i, rounds); break; }
            case 47: {   // assignment from a temporary: empty, in-object content, heap content
                static const size_t sizes[] = {0, 5, C - 1, C, C + 1, 3 * C};
                size_t n = r.pick(sizes);
                std::string b = bytes(r, n, true);
                { Temp t; { va::LibScope l; t.obj = new (t.raw) SS(); t.obj->append(b.data(), b.size()); *S.obj = std::move(*t.obj); }
                  std::string why0 = t.same(std::string(), "the temporary that was moved from"); if (!why0.empty()) return "step " + verif::unum(k) + " " + why0; }
                S.model = b; if (w.crossed) w.after_cross = true;
                w.lab("x:assign-from-temporary"); w.note("%d=temp(%zu); ", i, n); break; }
            case 48: {   // one chained expression over several overloads
                long long v = (long long)r.bits64(); std::string b = bytes(r, r.range(0, 40), false); for (char &ch : b) if (!ch) ch = '0';
                verif::Exact<char> e(b.data(), b.size(), true); ST::string t = ST::string::from_validated(b.data(), b.size());
                { va::LibScope l; SS &ret = (*S.obj << (int)v << e.data() << ':' << t << (unsigned long long)v << 2.5 << std::string_view(e.data(), e.size()));
                  if (&ret != S.obj) return "operator<< did not return the stream it was applied to"; }
                S.model += std::to_string((int)v) + b + ":" + b + std::to_string((unsigned long long)v) + "2.5" + b;
                w.lab("x:chained-inserters"); w.note("%d<<int<<cstr<<char<<ST::string<<ull<<double<<view; ", i); break; }
            case 49: {   // an append whose growth allocation fails: std::bad_alloc propagates; whatever valid state the stream reports is adopted
                         // (what a failed operation leaves behind is C18's question), and it must go on behaving as an ordinary stream
                size_t n = r.flag() ? before + C + r.range(0, 40) : append_len(r, before); int form = (int)r.range(0, 2);
                std::string b = bytes(r, n, false); verif::Exact<char> e(b.data(), b.size()); ST::string t = form == 2 ? ST::string::from_validated(b.data(), b.size()) : ST::string();
                if (form == 1) b.assign(b.size(), 'f');
                bool failed = false;
                va::arm_fault(1);
                try { va::LibScope l; if (form == 0) S.obj->append(e.data(), e.size()); else if (form == 1) S.obj->append_char('f', b.size()); else *S.obj << t; }
                catch (const std::bad_alloc &) { failed = true; }
                va::arm_fault(0);
                if (failed) {
                    size_t sz = S.obj->size();
                    if (sz > before + b.size()) return "step " + verif::unum(k) + ": after an append that failed with bad_alloc the stream reports size " + verif::unum(sz) + " (it held " + verif::unum(before) + ", " + verif::unum(b.size()) + " were offered)";
                    S.model.assign(S.obj->raw_buffer(), sz);
                    w.lab("x:append-with-failed-allocation");
                } else S.model += b;
                w.note("%d.append/%d(%zu)%s; ", i, form, b.size(), failed ? " [allocation failed]" : ""); break; }
            default: w.destroy(i); w.note("~%d; ", i); break;
            }
        } catch (...) {
            return "step " + verif::unum(k) + ": unexpected " + verif::describe_current_exception();
        }
        if (S.obj && before <= C && S.model.size() > C) { w.crossed = true; w.lab("crossed-inobject-capacity"); }
        if (S.obj && S.model.size() > 4 * C) w.lab("grew-past-4C");
        std::string why = w.check("after step");
        if (!why.empty()) return "step " + verif::unum(k) + " " + why;
    }
    for (int t = 0; t < NSLOT; t++) { w.destroy(t); std::string why = w.check("during teardown"); if (!why.empty()) return why; }
    if (va::live_blocks() != 0) return "leak: " + verif::unum(va::live_blocks()) + " heap block(s) still allocated after every stream was destroyed";
    return std::string();
}

}  // namespace

std::string big_stream_case(int k, int delta, int feed, int add, std::string &desc);
int verif_case(const uint8_t *data, size_t size, Case &c) {
    if (size >= 5 && data[0] == 0xFF) {      // one entry of the big-stream table (generated inputs stay at or below 4 MiB)
        const int k = 16 + data[1] % (size == 5 ? 10 : 7);
        std::string desc, why = big_stream_case(k, data[2] % 3 - 1, data[3] % 3, data[4] % 6, desc);
        c.nontrivial = true; c.label("x:big-stream"); c.mix(0xB16); c.mix(k); c.mix(data[2] % 3); c.mix(data[3] % 3); c.mix(data[4] % 6);
        if (c.want_text) c.text = desc;
        if (!why.empty()) return c.fail(why);
        return verif::CASE_OK;
    }
    verif::Reader r(data, size, c);
    World w; w.want_log = c.want_text;
    std::string why = run(r, c, w, size > 0 && data[0] >= 80);
    c.nontrivial = w.crossed && w.after_cross;
    // Case keeps 12 labels: the classes of the extended table ("x:") first, then the others
    for (int pass = 0; pass < 2; pass++) for (const char *l : w.labs) if ((l[0] == 'x' && l[1] == ':') == (pass == 0)) c.label(l);
    if (c.want_text) c.text = "C16 C=" + verif::unum(C) + "  " + (w.log.size() > 900 ? w.log.substr(0, 900) + "..." : w.log);
    va::reset();
    if (!why.empty()) return c.fail(why);
    return verif::CASE_OK;
}

// Big streams: capacities of 64 KiB .. 8 MiB (quick) / 32 MiB (thorough) reached in one append, in 64 KiB pieces or in 4 KiB pieces; then ONE
// append / append_char / operator<< that lands just below, at, just above the capacity or several doublings beyond it (1 byte, +cap, 2*cap+3,
// 3 MiB+7, 5 MiB); then truncate/erase, a further append and a move.  Compared byte for byte with a std::string model.
// As a verif_case input: FF k delta feed add (so that a failing table entry is an ordinary replay file).
std::string big_stream_case(int k, int delta, int feed, int add, std::string &desc) {
    static std::string pat;
    if (pat.empty()) { pat.assign(8u << 20, '\0'); for (size_t i = 0; i < pat.size(); i++) pat[i] = (char)('a' + (i * 7 + (i >> 9)) % 26); }
    const size_t start = ((size_t)1 << k) + delta;
    static const size_t fixed[] = {1, 0, 0, (3u << 20) + 7, 5u << 20, 300};
    const size_t a = add == 1 ? ((size_t)1 << k) : add == 2 ? ((size_t)2 << k) + 3 : fixed[add];
    desc = "C16 big stream: " + verif::unum(start) + " bytes appended " + (feed == 0 ? "at once" : feed == 1 ? "in 64 KiB pieces" : "in 4 KiB pieces") + ", then one append of " + verif::unum(a) +
           " bytes (" + (add == 5 ? "append_char" : add % 3 == 0 ? "append" : add % 3 == 1 ? "<< string_view" : "<< ST::string") + "), truncate, erase, append, move";
    va::reset();
    std::string why, model;
    {
        va::LibScope l;
        ST::string_stream ss;
        auto same = [&](const char *when) {
            if (!why.empty()) return;
            if (ss.size() != model.size()) why = std::string(when) + ": size() is " + verif::unum(ss.size()) + ", the appended bytes are " + verif::unum(model.size());
            else if (memcmp(ss.raw_buffer(), model.data(), model.size()) != 0) {
                size_t i = 0; while (ss.raw_buffer()[i] == model[i]) i++;
                why = std::string(when) + ": byte " + verif::unum(i) + " of " + verif::unum(model.size()) + " differs from what was appended";
            }
        };
        auto put = [&](size_t off, size_t n, int how) {
            while (n) { size_t m = n < pat.size() - off ? n : pat.size() - off; if (!m) { off = 0; continue; }
                if (how == 0) ss.append(pat.data() + off, m); else if (how == 1) ss << std::string_view(pat.data() + off, m); else ss << ST::string::from_validated(pat.data() + off, m);
                model.append(pat.data() + off, m); off = (off + m) % pat.size(); n -= m; }
        };
        if (feed == 0) put(3, start, 0);
        else { const size_t piece = feed == 1 ? 65536 : 4096; size_t done = 0; while (done < start) { size_t m = start - done < piece ? start - done : piece; put(done % 1000, m, 0); done += m; } }
        same("after growing the stream");
        if (add == 5) { ss.append_char('#', a); model.append(a, '#'); } else put(11, a, add % 3);
        same("after one further append");
        const size_t keep = model.size() / 2 + 1; ss.truncate(keep); model.resize(keep); same("after truncate");
        ss.erase(C + 1); model.resize(model.size() - (C + 1)); same("after erase");
        put(5, 70000, 1); same("after appending to the truncated stream");
        ST::string_stream moved(std::move(ss)); if (why.empty() && (moved.size() != model.size() || memcmp(moved.raw_buffer(), model.data(), model.size()) != 0)) why = "a stream move-constructed from the big stream does not hold its bytes";
        if (why.empty() && ss.size() != 0) why = "the moved-from big stream is not empty";
        ss << "again"; if (why.empty() && (ss.size() != 5 || memcmp(ss.raw_buffer(), "again", 5) != 0)) why = "the moved-from big stream does not take a new append";
        std::string().swap(model);      // the model grew inside this scope: its block is released the same way
    }
    if (why.empty()) { if (const char *e = va::error()) { why = e; va::clear_error(); } else if (va::live_blocks() != 0) why = "leak: " + verif::unum(va::live_blocks()) + " heap block(s) left after the stream was destroyed"; }
    va::reset();
    return why;
}

long verif_enumerate(int shard, int nshards, int tier, verif::EnumReport &r) {
    long idx = 0;
    const int maxk = tier ? 25 : 23;
    for (int k = 16; k <= maxk; k++)
        for (int delta = -1; delta <= 1; delta++)
            for (int feed = 0; feed < 3; feed++)
                for (int add = 0; add < 6; add++, idx++) {
                    if (idx % nshards != shard) continue;
                    if (!tier && k > 20 && feed == 2) continue;
                    uint8_t cur[5] = {0xFF, (uint8_t)(k - 16), (uint8_t)(delta + 1), (uint8_t)feed, (uint8_t)add};
                    verif::set_current(cur, 5);
                    std::string desc, why = big_stream_case(k, delta, feed, add, desc);
                    r.evaluations++; r.nontrivial++;
                    if (r.want_sample() && idx % 37 == 5) r.samples.push_back(desc);
                    if (!why.empty()) { r.failure = why; r.failing_case = desc; r.failing_bytes.assign(cur, cur + 5); return r.evaluations; }
                }
    if (shard == 0) r.exhausted.push_back(std::string("big-stream table: sizes 2^k-1, 2^k, 2^k+1 for k = 16..") + (tier ? "25" : "23") + " x fed at once / in 64 KiB / in 4 KiB pieces x one further append of 1, 2^k, 2^(k+1)+3, 3 MiB+7, 5 MiB, 300 x append / << string_view / << ST::string / append_char");
    return r.evaluations;
}

void verif_corpus(std::vector<std::vector<uint8_t>> &out) {
    out.push_back({0, 0, 0, 4, 0, 0, 1, 1, 0, 2, 0, 0, 4, 0, 0, 0, 3, 0});   // create, append to C, move-construct, append to the moved-from stream
    out.push_back({0, 0, 0, 8, 0, 0, 1, 3, 65, 24, 0, 0, 5, 29, 0, 0});
    // extended table (first byte >= 80): create two streams, grow one past the in-object capacity, then one extended operation each
    for (uint8_t op = 32; op < (uint8_t)kNumOps; op++) out.push_back({(uint8_t)(80 + 5), 0, 0, 0, 0, 1, 1, 8, 0, 0, 1, 3, 65, op, 0, 1, 1, 2, 3, 4, 5, 6, 7, 8, 44, 0, 0});
}
