// C17: all output sinks emit the same bytes for the same format call; stream insertion writes the
// contents (transcoded); stream extraction stores the token a std::basic_string extraction reads.
#include <string_theory/string>
#include <string_theory/format>
#include <string_theory/iostream>
#include <string_theory/stdio>

#include <cstdio>
#include <sstream>
#include <typeinfo>

#include <thread>
#include "common/verif.h"
#include "ref/ref_format.h"
#include "ref/ref_unicode.h"
#include "gen/gen_format.h"

using verif::Case;

const verif::Info verif_info = {
    "C17", 400,
    "generated format calls (gen/gen_format.h: 1..5 fields, 1..5 arguments of 32 types, literals of whole scalars incl. 2/3/4-byte characters and brace escapes, widths/precisions <= 400 "
    "so padding runs cross every internal buffer size; 1 in 16 deliberately ill-formed; 1 in 12 truncated or with an argument dropped so that every sink must fail alike) plus "
    "floating-point fields, 1 in 8 with a 1-6 KB text argument or literal carrying a multi-unit character at a byte offset around 1000/1024/2048/4096/6144 or a padding run of 31..16385 "
    "characters, 1 in 5 with the std streams in a non-default pre-state (pending width, fill, adjustfield, basefield/showbase/showpos), each sent to seven sinks: ST::format (default validation and assume_valid), ST::printf(FILE* = open_memstream), ST::writef(std::ostringstream), "
    "ST::format_latin_1, ST::writef to wchar_t / char16_t / char32_t string streams, and the _stfmt literal. Oracle: narrow sinks byte-identical to each other and (when modelled) "
    "to the ref/ref_format.h rendering; format_latin_1 == reference Latin-1->UTF-8 of those bytes; wide sinks == reference UTF-32/16 transcoding of those bytes, compared when "
    "ST::format accepts the call; same exception kind for rejected calls. Stream insertion: os << ST::string (scalars incl. NUL, all size classes) into the four stream types == "
    "reference transcoding, surrounded by other output. Extraction: is >> ST::string repeated on char and wchar_t streams (whitespace-separated tokens, width(), noskipws, ill-formed "
    "units) == what is >> std::basic_string reads from an identical stream (token, or ST::unicode_error when the token is not acceptable to the default validation; stream state "
    "equal); char16_t/char32_t streams must fail identically. Non-trivial: output has padding and a non-ASCII character, or >= 2 fields, or a multi-unit token/insertion.",
    true, "exploration"};

namespace {

const bool kIncludeKnown = getenv("VERIF_INCLUDE_KNOWN") != nullptr;

enum { K_OUT = 0, K_BADFMT, K_RANGE, K_INVARG, K_UNICODE, K_ASSERT, K_OTHER };
const char *kname(int k) { static const char *n[] = {"output", "ST::bad_format", "std::out_of_range", "std::invalid_argument", "ST::unicode_error", "ST_ASSERT", "other exception"}; return n[k]; }

template <class CharT> struct Out { int kind = K_OUT; std::basic_string<CharT> units; std::string what; bool stream_bad = false; };

template <class CharT, class F> Out<CharT> guard(F &&f) {
    Out<CharT> o;
    try { f(o.units); }
    catch (const ST::bad_format &e) { o.kind = K_BADFMT; o.what = e.what(); }
    catch (const ST::unicode_error &e) { o.kind = K_UNICODE; o.what = e.what(); }
    catch (const std::out_of_range &e) { o.kind = K_RANGE; o.what = e.what(); }
    catch (const std::invalid_argument &e) { o.kind = K_INVARG; o.what = e.what(); }
    catch (const verif::assertion_failure &a) { o.kind = K_ASSERT; o.what = a.message; }
    catch (...) { o.kind = K_OTHER; o.what = verif::describe_current_exception(); }
    return o;
}

// f(x...) with the argument list in library types (one typed argument: its own C++ type)
template <class F> void with_args(const std::vector<fg::Value> &args, F &&f) {
    if (args.size() == 1) fg::visit(args[0], [&](const auto &x) -> int { f(x); return 0; });
    else fg::call_n(args, [&](auto... x) { f(x...); });
}

ref::Units units_of(const std::string &b) { ref::Units u; u.reserve(b.size()); for (unsigned char ch : b) u.push_back(ch); return u; }
template <class CharT> ref::Units units_of_w(const std::basic_string<CharT> &s) {
    ref::Units u; u.reserve(s.size());
    for (CharT ch : s) u.push_back((uint32_t)(typename std::make_unsigned<CharT>::type)ch);
    return u;
}
template <class CharT> ref::Enc enc_of() { return sizeof(CharT) == 1 ? ref::UTF8 : sizeof(CharT) == 2 ? ref::UTF16 : ref::UTF32; }
template <class CharT> const char *cname() { return std::is_same<CharT, char>::value ? "char" : std::is_same<CharT, wchar_t>::value ? "wchar_t" : sizeof(CharT) == 2 ? "char16_t" : "char32_t"; }
template <class CharT> std::string show_units(const std::basic_string<CharT> &s) { return verif::units(s.data(), s.size(), 40); }
template <class CharT> std::basic_string<CharT> from_units(const ref::Units &u) { std::basic_string<CharT> s; for (uint32_t v : u) s.push_back((CharT)v); return s; }
// Equality of stream contents.  libstdc++'s char_traits<char16_t>::to_int_type maps the unit FFFF (== eof()) to FFFD, so a
// char16_t stream buffer stores FFFD for an FFFF that happens to pass through overflow(): at positions where FFFF is
// expected either unit is accepted (a property of the standard library's stream, not of string_theory).
template <class CharT> bool same_units(const std::basic_string<CharT> &got, const std::basic_string<CharT> &want) {
    if (sizeof(CharT) != 2) return got == want;
    if (got.size() != want.size()) return false;
    for (size_t i = 0; i < got.size(); i++)
        if (got[i] != want[i] && !((uint32_t)want[i] == 0xFFFF && (uint32_t)got[i] == 0xFFFD)) return false;
    return true;
}

// compares a wide sink's output with the reference transcoding of `bytes` (UTF-8 accepted by check_validity)
template <class CharT> std::string compare_wide(const char *sink, const Out<CharT> &got, const std::string &bytes) {
    ref::Expect e = ref::expect(ref::UTF8, enc_of<CharT>(), ref::CHECK, units_of(bytes));
    if (e.throws) return std::string();          // the validator and the reference disagree on acceptance: C02's subject, not judged here
    if (got.kind == K_UNICODE && e.may_throw) return std::string();
    if (got.kind == K_OUT && got.stream_bad) return std::string(sink) + ": the stream is not good() after the call although ST::format accepted the same call";
    if (got.kind != K_OUT) return std::string(sink) + " ended with " + kname(got.kind) + " (" + got.what + ") although ST::format accepted the same call and produced " + verif::quoted(bytes, 120);
    std::basic_string<CharT> want = from_units<CharT>(e.out);
    if (!same_units(got.units, want)) return std::string(sink) + " wrote [" + show_units(got.units) + "], the " + (sizeof(CharT) == 2 ? "UTF-16" : "UTF-32") + " transcoding of ST::format's output " + verif::quoted(bytes, 120) + " is [" + show_units(want) + "]";
    return std::string();
}

// true when some piece boundary of the reference rendering falls inside a multi-byte sequence (open finding F17-1:
// the wchar_t/char16_t/char32_t sinks transcode every appended piece on its own)
bool piece_splits_character(const ref::Result &want) {
    for (size_t b : want.boundaries)
        if (b > 0 && b < want.out.size() && ((unsigned char)want.out[b] & 0xC0) == 0x80) return true;
    return false;
}

// Pre-state of the target std streams: a pending width, a fill character and formatting flags must not change what
// ST::writef writes (it writes unformatted).  0 = pristine stream.
template <class S> void prestate(S &s, int pre) {
    typedef typename S::char_type C;
    if (!pre) return;
    if (pre & 1) s.width(8);
    if ((pre & 2) && (std::is_same<C, char>::value || std::is_same<C, wchar_t>::value)) s.fill((C)'*');   // libstdc++ has no ctype<char16_t/char32_t>: fill() would throw bad_cast there
    if (pre & 4) s.setf(std::ios_base::left, std::ios_base::adjustfield);
    if (pre & 8) { s.setf(std::ios_base::hex, std::ios_base::basefield); s.setf(std::ios_base::showbase | std::ios_base::uppercase | std::ios_base::showpos); }
}

struct FormatCase {
    int pre = 0;                // stream pre-state (see prestate)
    std::string fmt; std::vector<fg::Value> args; std::vector<ref::Arg> rargs;
    bool modelled = true;       // ref::interpret's rendering is authoritative (no float)
    bool split_possible = true; // pieces might split a character (decided from the reference boundaries)
};

// An argument of a user-defined type whose format_type() itself calls ST::format (a formatter built out of the library's own formatting, as
// a caller would write it): the outer call's output around it must be intact in every sink.
struct NestedArg { int v; const char *inner; };
inline void format_type(const ST::format_spec &, ST::format_writer &out, const NestedArg &n) {
    ST::string in = ST::format(n.inner, n.v, "in", NestedArg{n.v / 7, n.v % 3 ? "{}~{}" : "[{x}/{}]"}.v);
    out.append(in.c_str(), in.size());
}
std::string check_nested(unsigned sel) {
    static const char *const inners[] = {"<{}:{}:{}>", "{>6}{_*<5}{x}", "{#x}|{}|{+}", "{}{}{}"};
    static const char *const widths[] = {"", ">12", "<20_.", "_*>300"};
    const int k1 = (int)(sel * 2654435761u >> 7) - 100000, k2 = (int)(sel % 977) * 13;
    NestedArg na{(int)(sel % 100000) - 500, inners[sel & 3]};
    std::string outer = std::string("{") + widths[(sel >> 2) & 3] + "}<{}>{x}|{}";
    std::string A, B, C, D, full, viaFile, viaStream;
    try {
        { ST::string t = ST::format((std::string("{") + widths[(sel >> 2) & 3] + "}<").c_str(), k1); A.assign(t.c_str(), t.size()); }
        { ST::string t = ST::format(na.inner, na.v, "in", NestedArg{na.v / 7, ""}.v); B.assign(t.c_str(), t.size()); }
        { ST::string t = ST::format(">{x}|", k2); C.assign(t.c_str(), t.size()); }
        { ST::string t = ST::format("{}", "tail"); D.assign(t.c_str(), t.size()); }
        { ST::string t = ST::format(outer.c_str(), k1, na, k2, "tail"); full.assign(t.c_str(), t.size()); }
        { char *mb = nullptr; size_t ms = 0; FILE *fp = open_memstream(&mb, &ms); if (fp) { ST::printf(fp, outer.c_str(), k1, na, k2, "tail"); fclose(fp); viaFile.assign(mb, ms); free(mb); } }
        { std::ostringstream os; ST::writef(os, outer.c_str(), k1, na, k2, "tail"); viaStream = os.str(); }
    } catch (...) { return "a format call with an argument whose format_type() calls ST::format itself ended with " + verif::describe_current_exception(); }
    const std::string want = A + B + C + D;
    if (full != want) return "ST::format(\"" + outer + "\", int, <user type whose format_type() calls ST::format>, int, text) gives " + verif::quoted(full, 160) + " but the pieces formatted one by one give " + verif::quoted(want, 160);
    if (viaFile != want) return "ST::printf(FILE*) with an argument whose format_type() calls ST::format wrote " + verif::quoted(viaFile, 160) + ", ST::format gives " + verif::quoted(want, 160);
    if (viaStream != want) return "ST::writef(ostream) with an argument whose format_type() calls ST::format wrote " + verif::quoted(viaStream, 160) + ", ST::format gives " + verif::quoted(want, 160);
    return std::string();
}

// The oracle for one format call over all sinks.  "" when the property holds.
std::string check_sinks(const FormatCase &k, Case &c, bool &nontrivial) {
    verif::Exact<char> f(k.fmt.data(), k.fmt.size(), true);
    const char *fs = f.data();
    const std::vector<fg::Value> &args = k.args;

    Out<char> a = guard<char>([&](std::string &o) { with_args(args, [&](const auto &...x) { ST::string s = ST::format(fs, x...); o.assign(s.c_str(), s.size()); }); });
    Out<char> av = guard<char>([&](std::string &o) { with_args(args, [&](const auto &...x) { ST::string s = ST::format(ST::assume_valid, fs, x...); o.assign(s.c_str(), s.size()); }); });
    Out<char> pf = guard<char>([&](std::string &o) {
        char *mb = nullptr; size_t ms = 0;
        FILE *fp = open_memstream(&mb, &ms);
        if (!fp) throw std::runtime_error("open_memstream failed");
        // however the call ends, the FILE* must be usable by another thread afterwards (a stdio lock taken and not released would block it forever)
        auto left_locked = [&] { bool busy = false; std::thread t([&] { if (ftrylockfile(fp) == 0) funlockfile(fp); else busy = true; }); t.join(); return busy; };
        if (verif::g_file_error_pre) fp->_flags |= 0x20;      // glibc's _IO_ERR_SEEN: the stream's error indicator is already set (an earlier, unrelated failure) when ST::printf starts; the bytes must come out all the same
        try { with_args(args, [&](const auto &...x) { ST::printf(fp, fs, x...); }); }
        catch (...) { bool busy = left_locked(); fclose(fp); free(mb); if (busy) throw std::runtime_error("ST::printf threw and left the FILE* locked: a later writer on another thread would block forever"); throw; }
        if (left_locked()) { fclose(fp); free(mb); throw std::runtime_error("ST::printf returned and left the FILE* locked: a later writer on another thread would block forever"); }
        bool err = ferror(fp) != 0 && !verif::g_file_error_pre;
        fclose(fp); o.assign(mb, ms); free(mb);
        if (err) throw std::runtime_error("FILE* error indicator set");
    });
    Out<char> os = guard<char>([&](std::string &o) {
        std::ostringstream s; prestate(s, k.pre);
        with_args(args, [&](const auto &...x) { ST::writef(s, fs, x...); });
        if (!s.good()) throw std::runtime_error("narrow ostream not good() after writef");
        o = s.str();
    });
    Out<char> udl = guard<char>([&](std::string &o) { with_args(args, [&](const auto &...x) { ST::string s = ST::literals::operator""_stfmt(fs, k.fmt.size())(x...); o.assign(s.c_str(), s.size()); }); });
    Out<char> l1 = guard<char>([&](std::string &o) { with_args(args, [&](const auto &...x) { ST::string s = ST::format_latin_1(fs, x...); o.assign(s.c_str(), s.size()); }); });
    bool bad_w = false, bad_16 = false, bad_32 = false;
    Out<wchar_t> ww = guard<wchar_t>([&](std::wstring &o) { std::wostringstream s; prestate(s, k.pre); with_args(args, [&](const auto &...x) { ST::writef(s, fs, x...); }); bad_w = !s.good(); o = s.str(); });
    Out<char16_t> w16 = guard<char16_t>([&](std::u16string &o) { std::basic_ostringstream<char16_t> s; prestate(s, k.pre); with_args(args, [&](const auto &...x) { ST::writef(s, fs, x...); }); bad_16 = !s.good(); o = s.str(); });
    Out<char32_t> w32 = guard<char32_t>([&](std::u32string &o) { std::basic_ostringstream<char32_t> s; prestate(s, k.pre); with_args(args, [&](const auto &...x) { ST::writef(s, fs, x...); }); bad_32 = !s.good(); o = s.str(); });
    ww.stream_bad = bad_w; w16.stream_bad = bad_16; w32.stream_bad = bad_32;

    // --- sinks that do not validate: printf, narrow writef, format(assume_valid), format_latin_1 must end the same way
    if (pf.kind == K_ASSERT || pf.kind == K_OTHER) return std::string("ST::printf(FILE*) ended with ") + kname(pf.kind) + " (" + pf.what + ")";
    const Out<char> *narrow[] = {&os, &av, &l1};
    const char *nname[] = {"ST::writef(std::ostringstream)", "ST::format(assume_valid)", "ST::format_latin_1"};
    for (int i = 0; i < 3; i++)
        if (narrow[i]->kind != pf.kind) return std::string(nname[i]) + " ended with " + kname(narrow[i]->kind) + " (" + narrow[i]->what + ") but ST::printf(FILE*) with " + kname(pf.kind) + (pf.kind ? " (" + pf.what + ")" : "");
    if (pf.kind != K_OUT) {
        c.label("format:rejected-by-all-sinks");
        // a rejected call: every other sink must reject it the same way (wide sinks may meet an ill-formed piece first)
        if (a.kind != pf.kind || udl.kind != pf.kind) return std::string("ST::format ended with ") + kname(a.kind) + " but ST::printf(FILE*) with " + kname(pf.kind);
        const int wk[] = {ww.kind, w16.kind, w32.kind};
        for (int i = 0; i < 3; i++) if (wk[i] != pf.kind && wk[i] != K_UNICODE) return std::string("a wide ST::writef ended with ") + kname(wk[i]) + " but ST::printf(FILE*) with " + kname(pf.kind);
        return std::string();
    }
    const std::string &raw = pf.units;
    if (os.units != raw) return "ST::writef(std::ostringstream) wrote " + verif::quoted(os.units, 160) + " but ST::printf(FILE*) " + verif::quoted(raw, 160);
    if (av.units != raw) return "ST::format(assume_valid) gives " + verif::quoted(av.units, 160) + " but ST::printf(FILE*) wrote " + verif::quoted(raw, 160);
    std::string wl = ref::latin1_to_utf8(raw);
    if (l1.units != wl) return "ST::format_latin_1 gives " + verif::quoted(l1.units, 160) + ", the UTF-8 transcoding of the Latin-1 bytes " + verif::quoted(raw, 120) + " is " + verif::quoted(wl, 160);
    ref::Result want;
    if (k.modelled || k.split_possible) want = ref::interpret(k.fmt, k.rargs);
    if (k.modelled && want.kind == ref::OK && !want.unmodelled && want.out != raw)
        return "all narrow sinks wrote " + verif::quoted(raw, 160) + ", the specified rendering is " + verif::quoted(want.out, 160);
    // --- ST::format with the default validation (and the literal operator, which is the same call)
    if (udl.kind != a.kind || (a.kind == K_OUT && udl.units != a.units)) return std::string("the _stfmt literal ended with ") + kname(udl.kind) + " " + verif::quoted(udl.units, 80) + " but ST::format with " + kname(a.kind) + " " + verif::quoted(a.units, 80);
    if (a.kind == K_UNICODE) {
        c.label("format:result-rejected-by-default-validation");
        // outside the domain of the wide-sink clause; they may write or throw unicode_error, nothing else
        const int wk[] = {ww.kind, w16.kind, w32.kind}; const std::string *wwhat[] = {&ww.what, &w16.what, &w32.what};
        for (int i = 0; i < 3; i++) if (wk[i] != K_OUT && wk[i] != K_UNICODE) return std::string("a wide ST::writef ended with ") + kname(wk[i]) + " (" + *wwhat[i] + ") on a call the narrow sinks completed";
        return std::string();
    }
    if (a.kind != K_OUT) return std::string("ST::format ended with ") + kname(a.kind) + " (" + a.what + ") but ST::printf(FILE*) wrote " + verif::quoted(raw, 160);
    if (a.units != raw) return "ST::format gives " + verif::quoted(a.units, 160) + " but ST::printf(FILE*) wrote " + verif::quoted(raw, 160);
    c.label("format:accepted");
    bool nonascii = false; for (unsigned char ch : raw) if (ch >= 0x80) nonascii = true;
    bool padded = false; size_t nfields = 0;
    if (want.kind == ref::OK) { nfields = want.fields.size(); for (const ref::Field &fi : want.fields) if (fi.padding) padded = true; }
    nontrivial = (padded && nonascii) || nfields >= 2;
    if (nonascii) c.label("format:non-ascii-output");
    if (padded) c.label("format:padded");
    // --- wide sinks
    // open finding F17-1 is identified by this predicate alone: only a failure of a call of this class carries the marker that
    // known_findings.json matches, so any other wide-sink disagreement is reported as a violation
    std::string mark;
    if (k.split_possible && want.kind == ref::OK && piece_splits_character(want)) {
        c.label("format:piece-boundary-inside-character");
        if (!kIncludeKnown) { c.excluded_known++; return std::string(); }
        mark = "[F17-1: a piece boundary lies inside a multi-byte character] ";
    }
    std::string why;
    if (!(why = compare_wide("ST::writef(std::wostringstream)", ww, raw)).empty()) return mark + why;
    if (!(why = compare_wide("ST::writef(basic_ostringstream<char16_t>)", w16, raw)).empty()) return mark + why;
    if (!(why = compare_wide("ST::writef(basic_ostringstream<char32_t>)", w32, raw)).empty()) return mark + why;
    return std::string();
}

// ----- stream insertion ---------------------------------------------------------------------
static const uint32_t kInsScalars[] = {'a', 'Z', ' ', '0', 0, 0x7F, 0x80, 0xE9, 0x7FF, 0x800, 0x20AC, 0xD7FF, 0xE000, 0xFFFD, 0xFFFF, 0x10000, 0x1F600, 0x10FFFF, '\n', '\t'};

void gen_value(verif::Reader &r, std::vector<uint32_t> &cps) {
    static const uint16_t lens[] = {0, 1, 2, 3, 4, 5, 7, 10, 11, 12, 13, 15, 16, 17, 31, 32, 33, 64, 100, 300};
    size_t n = r.pick(lens);
    unsigned mode = (unsigned)r.range(0, 3);     // 0 mixed, 1 ascii, 2 one repeated scalar, 3 mostly ascii
    uint32_t rep = r.pick(kInsScalars);
    for (size_t i = 0; i < n; i++) {
        if (mode == 2) { cps.push_back(rep); continue; }
        uint8_t b = r.u8();
        if (mode == 1 || (mode == 3 && b < 200)) cps.push_back("abcXYZ 019_-"[b % 12]);
        else cps.push_back(kInsScalars[b % (sizeof kInsScalars / sizeof kInsScalars[0])]);
    }
}

template <class CharT> std::string insert_one(const ST::string &s, const std::string &bytes, int surround) {
    typedef std::basic_string<CharT> Str;
    Out<CharT> got = guard<CharT>([&](Str &o) {
        std::basic_ostringstream<CharT> os;
        if (surround & 1) os << (CharT)'<';
        os << s;
        if (surround & 2) { os << (CharT)'>'; os << s; }
        if (!os.good()) throw std::runtime_error("stream not good() after insertion");
        o = os.str();
    });
    ref::Expect e = ref::expect(ref::UTF8, enc_of<CharT>(), ref::CHECK, units_of(bytes));
    Str one = from_units<CharT>(e.out), want;
    if (surround & 1) want.push_back((CharT)'<');
    want += one;
    if (surround & 2) { want.push_back((CharT)'>'); want += one; }
    if (got.kind != K_OUT) return std::string("os << ST::string on a ") + cname<CharT>() + " stream ended with " + kname(got.kind) + " (" + got.what + ")";
    if (!same_units(got.units, want)) return std::string("os << ST::string on a ") + cname<CharT>() + " stream wrote [" + show_units(got.units) + "], the contents transcoded are [" + show_units(want) + "]";
    return std::string();
}

// ----- stream extraction --------------------------------------------------------------------
struct ExtractPlan { int width[6]; bool noskipws; bool ws_manip[6]; int count; };

template <class CharT> std::string extract_all(const std::basic_string<CharT> &content, const ExtractPlan &p, Case &c, std::string *log) {
    typedef std::basic_string<CharT> Str;
    std::basic_istringstream<CharT> a(content), b(content);
    if (p.noskipws) { a >> std::noskipws; b >> std::noskipws; }
    for (int i = 0; i < p.count; i++) {
        Str tok; ST::string got = ST_LITERAL("previous"); int kind = K_OUT; std::string what;
        if (p.ws_manip[i]) { a >> std::ws; b >> std::ws; }
        if (p.width[i]) { a.width(p.width[i]); b.width(p.width[i]); }
        a >> tok;
        try { b >> got; }
        catch (const ST::unicode_error &e) { kind = K_UNICODE; what = e.what(); }
        catch (...) { kind = K_OTHER; what = verif::describe_current_exception(); }
        if (log) { *log += " tok" + std::to_string(i) + "=[" + show_units(tok) + "]"; }
        if (kind == K_OTHER) return "extraction " + std::to_string(i) + " from a " + cname<CharT>() + " stream threw " + what;
        bool ok = !a.fail();
        if (a.rdstate() != b.rdstate()) return "extraction " + std::to_string(i) + " from a " + cname<CharT>() + " stream leaves state " + std::to_string((int)b.rdstate()) + ", std::basic_string extraction leaves " + std::to_string((int)a.rdstate());
        if (a.tellg() != b.tellg() && ok) return "extraction " + std::to_string(i) + " from a " + cname<CharT>() + " stream consumed a different number of units than std::basic_string extraction";
        if (ok) {
            ref::Expect e = ref::expect(enc_of<CharT>(), ref::UTF8, ref::CHECK, units_of_w(tok));
            std::string want; for (uint32_t u : e.out) want.push_back((char)u);
            if (e.throws) { c.label("extract:token-rejected");
                if (kind != K_UNICODE) return "extraction " + std::to_string(i) + ": token [" + show_units(tok) + "] is not valid under the default validation, but ST::string extraction stored " + verif::quoted(std::string(got.c_str(), got.size()), 80); }
            else if (kind == K_UNICODE) { if (!e.may_throw) return "extraction " + std::to_string(i) + ": ST::unicode_error (" + what + ") for the acceptable token [" + show_units(tok) + "]"; }
            else if (std::string(got.c_str(), got.size()) != want) return "extraction " + std::to_string(i) + " from a " + cname<CharT>() + " stream stored " + verif::quoted(std::string(got.c_str(), got.size()), 80) + ", std::basic_string extraction read [" + show_units(tok) + "] = " + verif::quoted(want, 80);
            if (tok.size() > 1) c.nontrivial = true;
        } else if (kind == K_UNICODE) return "extraction " + std::to_string(i) + " threw ST::unicode_error although std::basic_string extraction read nothing";
        if (!ok) break;
    }
    return std::string();
}

// ----- directed sweep ---------------------------------------------------------------------
struct SweepPoint { int text, len, align, pad, dw, prec, lit; };
const int kSweepDims[7] = {6, 9, 3, 3, 5, 4, 4};
const uint32_t kSweepScalar[6] = {'a', 0xE9, 0x20AC, 0x1F600, 0x7FF, 0xFFFF};
const int kSweepLen[9] = {0, 1, 3, 11, 12, 13, 15, 16, 17};

void sweep_build(const SweepPoint &p, FormatCase &k) {
    std::vector<uint32_t> cps((size_t)kSweepLen[p.len], kSweepScalar[p.text]);
    if (cps.size() > 2) cps[1] = 'x';     // mixed widths
    k.args.resize(1);
    static const fg::Ty ty[] = {fg::T_CSTR, fg::T_STSTRING, fg::T_WCSTR, fg::T_U16STRING, fg::T_U32SV, fg::T_SV};
    k.args[0].set_text(ty[(p.text + p.len) % 6], cps);
    k.rargs.assign(1, k.args[0].to_ref());
    fg::PSpec sp; sp.align = p.align;
    if (p.pad == 1) sp.pad = '*'; else if (p.pad == 2) sp.pad = '0';
    size_t nbytes = k.args[0].utf8.size();
    if (p.prec == 1) sp.precision = 0;
    else if (p.prec == 2) { size_t cut = nbytes / 2; while (cut > 0 && cut < nbytes && ((unsigned char)k.args[0].utf8[cut] & 0xC0) == 0x80) cut--; sp.precision = (int)cut; nbytes = cut; }
    else if (p.prec == 3) sp.precision = (int)nbytes + 1;
    if (p.prec == 1) nbytes = 0;
    static const int dw[] = {-1000, -1, 0, 1, 7};
    sp.width = dw[p.dw] == -1000 ? 0 : (int)nbytes + dw[p.dw];
    if (sp.width < 0) sp.width = 0;
    static const char *lits[] = {"", "\xC3\xA9", "{{", "\xF0\x9F\x98\x80 }}"};
    k.fmt = std::string(lits[p.lit]) + fg::print_spec(sp, nullptr, 0) + lits[(p.lit + 1) % 4];
    k.modelled = true; k.split_possible = false;
}

// A long text piece: `at` ASCII bytes, then one multi-unit character, then a short tail; as an argument of type ty[tyi] or as a literal.
const uint32_t kLongWide[] = {0xE9, 0x20AC, 0x1F600, 0x10FFFF, 0x7FF, 0x800};
const uint16_t kLongBases[] = {1000, 1020, 1024, 2040, 2048, 3000, 4090, 4096, 5000, 6144, 8192, 16384};
const fg::Ty kLongTypes[] = {fg::T_CSTR, fg::T_STSTRING, fg::T_STDSTRING, fg::T_SV, fg::T_WCSTR, fg::T_U16STRING, fg::T_U32SV, fg::T_U8STRING};
void add_long_piece(FormatCase &k, size_t at, uint32_t wch, size_t tail, int tyi) {      // tyi < 0: literal
    std::vector<uint32_t> cps(at, 'a');
    for (size_t i = 7; i < cps.size(); i += 61) cps[i] = ' ';
    cps.push_back(wch);
    for (size_t i = 0; i < tail; i++) cps.push_back(i % 9 == 4 ? wch : 'z');
    if (tyi >= 0) {
        fg::Value v; v.set_text(kLongTypes[tyi % 8], cps);
        k.args.push_back(std::move(v)); k.rargs.push_back(k.args.back().to_ref());
        k.fmt += "{&" + std::to_string(k.args.size()) + "}";
    } else {
        for (uint32_t cp : cps) k.fmt += ref::utf8_of(cp);
    }
}

void render_format_case(const FormatCase &k, Case &c) {
    c.text = "C17 sinks(" + verif::quoted(k.fmt, 160) + (k.args.empty() ? "" : ", ");
    for (size_t i = 0; i < k.args.size(); i++) { if (i) c.text += ", "; c.text += k.args[i].show(); }
    c.text += ")";
    if (k.pre) c.text += " stream-pre-state=" + std::to_string(k.pre);
}

}  // namespace

int verif_case(const uint8_t *data, size_t size, Case &c) {
    verif::Reader r(data, size, c);
    uint8_t first = r.u8();
    if (first == 0xFF || first == 0xFD || first == 0xFC || first < 170) {
        FormatCase k;
        if (first == 0xFF) {
            int q[7]; for (int i = 0; i < 7; i++) q[i] = (int)(r.u8() % kSweepDims[i]);
            SweepPoint p = {q[0], q[1], q[2], q[3], q[4], q[5], q[6]};
            sweep_build(p, k);
            c.label("directed-sweep-point");
        } else if (first == 0xFC) {              // directed: one point of the long-piece sweep
            unsigned bi = r.u8() % 12, off = r.u8() % 9, wi = r.u8() % 6, ti = r.u8() % 9, tail = r.u8() % 41;
            k.fmt = ti == 8 ? "" : "[";
            add_long_piece(k, (size_t)kLongBases[bi] + off - 4, kLongWide[wi], tail, ti == 8 ? -1 : (int)ti);
            k.fmt += "]";
            c.label("directed-long-piece");
        } else if (first == 0xFD) {              // directed: the saved inputs of open finding F17-1
            unsigned which = r.u8() % 2;
            k.args.resize(1);
            if (which == 0) { std::vector<uint32_t> cps(1, 0xE9); k.args[0].set_text(fg::T_CSTR, cps); k.fmt = "{.1}\xA9"; }
            else { std::vector<uint32_t> cps; k.args[0].set_text(fg::T_CSTR, cps); k.fmt = "{_\xC3>1}\xA9"; }
            k.rargs.assign(1, k.args[0].to_ref());
            c.label("directed-known-finding-input");
        } else if (first < 140) {
            fg::Call call; fg::Options opt;
            fg::decode_call(r, call, opt);
            fg::label_call(call, c);
            k.fmt = call.fmt; k.args = std::move(call.args); k.rargs = std::move(call.rargs);
            // 1 in 12: damage the call so that every sink has to reject it
            unsigned dmg = (unsigned)r.range(0, 23);
            if (dmg == 1 && !k.fmt.empty()) { k.fmt.resize(r.idx(k.fmt.size())); c.label("format:truncated"); }
            else if (dmg == 2 && !k.args.empty()) { k.args.pop_back(); k.rargs.pop_back(); c.label("format:argument-dropped"); }
        } else {
            // one floating-point field between literals of whole scalars (rendering is ASCII; pad ASCII)
            c.label("arg:floating-point");
            std::vector<uint32_t> l1, l2; fg::gen_scalars(r, r.range(0, 3), false, l1); fg::gen_scalars(r, r.range(0, 3), false, l2);
            fg::PSpec sp; sp.align = (int)r.range(0, 2);
            unsigned pm = (unsigned)r.range(0, 2); if (pm == 1) sp.pad = (unsigned char)"*-x 9"[r.idx(5)]; else if (pm == 2) sp.zero = true;
            sp.plus = r.flag(); sp.cls = "\0feE"[r.range(0, 3)];
            if (r.flag()) sp.precision = (int)r.range(0, 40);
            static const int ws[] = {0, 1, 5, 12, 25, 40, 70, 300};
            sp.width = r.pick(ws);
            static const double vals[] = {0.0, -0.0, 1.0, -1.5, 3.14159265358979, 1e10, 1e-10, 1e100, 1e300, -1e-300, 123456789.125, 5e-324, 1.7976931348623157e308};
            double v; unsigned vk = (unsigned)r.range(0, 3);
            if (vk == 0) v = r.pick(vals); else if (vk == 1) { uint64_t b = r.bits64(); memcpy(&v, &b, 8); } else if (vk == 2) v = (double)(int64_t)r.bits64() / 1000.0; else v = r.flag() ? (double)INFINITY : (double)NAN;
            k.args.resize(1); k.args[0].set_double(r.flag() ? fg::T_DOUBLE : fg::T_FLOAT, v);
            k.rargs.assign(1, k.args[0].to_ref());
            for (uint32_t cp : l1) { if (cp == '{' || cp == '}') continue; k.fmt += ref::utf8_of(cp); }
            k.fmt += fg::print_spec(sp, &r);
            for (uint32_t cp : l2) { if (cp == '{' || cp == '}') continue; k.fmt += ref::utf8_of(cp); }
            k.modelled = false; k.split_possible = false;
        }
        if (first >= 8 && first < 140 && k.args.size() <= 4) {
            // extras layered over a generated call (bytes read AFTER the call so that existing inputs decode as before)
            unsigned x = (unsigned)r.range(0, 15);
            if (x == 1 || x == 2) {                 // a long text piece: 1..16 KB of ASCII with one 2-/3-/4-byte character at a chosen byte offset
                size_t at = (size_t)r.pick(kLongBases) + (size_t)r.range(0, 8) - 4;
                uint32_t wch = r.pick(kLongWide);
                size_t tail = r.range(0, 40);
                add_long_piece(k, at, wch, tail, x == 1 ? (int)r.idx(8) : -1);
                c.label(x == 1 ? "format:long-text-argument" : "format:long-literal");
            } else if (x == 3) {                    // a padding run of a power-of-two-ish length (and one off)
                static const uint16_t runs[] = {31, 32, 33, 63, 64, 65, 255, 256, 257, 1023, 1024, 1025, 4095, 4096, 4097, 8191, 8192, 8193, 16384, 16385};
                size_t run = r.pick(runs);
                fg::Value v; std::vector<uint32_t> cps; size_t n = r.range(0, 3); for (size_t i = 0; i < n; i++) cps.push_back(i == 1 ? 0xE9 : 'q');
                v.set_text(fg::T_CSTR, cps);
                k.args.push_back(std::move(v)); k.rargs.push_back(k.args.back().to_ref());
                size_t nat = k.args.back().utf8.size();
                k.fmt += std::string("{&") + std::to_string(k.args.size()) + (r.flag() ? ">" : "<") + (r.flag() ? "_*" : "") + std::to_string(run + nat) + "}";
                c.label("format:long-padding-run");
            }
            k.pre = r.chance(48) ? (int)r.range(1, 15) : 0;
            if (k.pre) c.label("format:stream-pre-state");
        }
        if (c.want_text) render_format_case(k, c);
        bool nt = false;
        std::string why = check_sinks(k, c, nt);
        c.nontrivial = nt;
        if (why.empty()) why = check_nested((unsigned)(c.hash ^ (c.hash >> 32)));
        if (!why.empty()) return c.fail(why);
        return verif::CASE_OK;
    }
    if (first < 212) {                        // insertion
        std::vector<uint32_t> cps; gen_value(r, cps);
        int surround = (int)r.range(0, 3);
        std::string bytes; for (uint32_t cp : cps) bytes += ref::utf8_of(cp);
        ST::string s = ST::string::from_validated(bytes.data(), bytes.size());
        c.label("insert");
        bool multi = false; for (uint32_t cp : cps) if (cp >= 0x80) multi = true;
        if (multi) c.label("insert:multi-unit");
        c.nontrivial = multi;
        if (c.want_text) c.text = "C17 os << ST::string " + verif::quoted(bytes, 80) + " (" + std::to_string(cps.size()) + " scalars) into char/wchar_t/char16_t/char32_t streams, surround=" + std::to_string(surround);
        std::string why;
        if (!(why = insert_one<char>(s, bytes, surround)).empty()) return c.fail(why);
        if (!(why = insert_one<wchar_t>(s, bytes, surround)).empty()) return c.fail(why);
        if (!(why = insert_one<char16_t>(s, bytes, surround)).empty()) return c.fail(why);
        if (!(why = insert_one<char32_t>(s, bytes, surround)).empty()) return c.fail(why);
        return verif::CASE_OK;
    }
    // extraction
    {
        unsigned kind = (unsigned)r.range(0, 9);       // 0..4 char, 5..8 wchar_t, 9 char16_t/char32_t
        ExtractPlan p; p.count = 1 + (int)r.range(0, 5); p.noskipws = r.chance(30);
        for (int i = 0; i < 6; i++) { p.width[i] = r.chance(50) ? (int)r.range(1, 9) : 0; p.ws_manip[i] = r.chance(40); }
        size_t nitems = r.range(0, 24);
        std::vector<uint32_t> cps;
        for (size_t i = 0; i < nitems; i++) {
            uint8_t b = r.u8();
            if (b < 70) cps.push_back(" \t\n\v\f\r "[b % 7]);
            else if (b < 150) cps.push_back("abcXYZ019"[b % 9]);
            else cps.push_back(kInsScalars[b % (sizeof kInsScalars / sizeof kInsScalars[0])]);
        }
        std::string log;
        std::string why;
        if (kind <= 4) {
            std::string content; for (uint32_t cp : cps) content += ref::utf8_of(cp);
            unsigned nbad = r.chance(60) ? 1 + (unsigned)r.range(0, 1) : 0;          // ill-formed bytes inside tokens
            for (unsigned i = 0; i < nbad; i++) { static const char *bad[] = {"\x80", "\xC3", "\xE2\x82", "\xFF", "\xC0\xAF", "\xED\xA0\x80", "\xF4\x90\x80\x80", "\xF0\x9F"}; content.insert(r.idx(content.size() + 1), r.pick(bad)); }
            c.label(nbad ? "extract:char-stream-with-ill-formed-bytes" : "extract:char-stream");
            why = extract_all<char>(content, p, c, c.want_text ? &log : nullptr);
            if (c.want_text) c.text = "C17 is >> ST::string x" + std::to_string(p.count) + " from char stream " + verif::quoted(content, 80) + (p.noskipws ? " noskipws" : "") + log;
        } else if (kind <= 8) {
            std::wstring content(cps.begin(), cps.end());
            if (sizeof(wchar_t) == 2) { std::u16string t = ref::utf16_of(cps); content.assign(t.begin(), t.end()); }
            unsigned nbad = r.chance(60) ? 1 : 0;
            if (nbad) { static const uint32_t bad[] = {0xD800, 0xDFFF, 0x110000, 0x7FFFFFFF, 0xDC00}; content.insert(content.begin() + (long)r.idx(content.size() + 1), (wchar_t)r.pick(bad)); }
            c.label(nbad ? "extract:wchar-stream-with-invalid-units" : "extract:wchar-stream");
            why = extract_all<wchar_t>(content, p, c, c.want_text ? &log : nullptr);
            if (c.want_text) c.text = "C17 is >> ST::string x" + std::to_string(p.count) + " from wchar_t stream [" + show_units(content) + "]" + (p.noskipws ? " noskipws" : "") + log;
        } else {
            // libstdc++ has no ctype<char16_t/char32_t>: both extractions must fail in the same way
            c.label("extract:char16/32-stream");
            std::u16string c16 = ref::utf16_of(cps); std::u32string c32(cps.begin(), cps.end());
            std::basic_istringstream<char16_t> a16(c16), b16(c16); std::basic_istringstream<char32_t> a32(c32), b32(c32);
            std::u16string t16; std::u32string t32; ST::string g16, g32;
            int k16 = 0, k32 = 0, s16 = 0, s32 = 0;
            try { a16 >> t16; } catch (...) { s16 = 1; }
            try { b16 >> g16; } catch (const ST::unicode_error &) { k16 = 2; } catch (...) { k16 = 1; }
            try { a32 >> t32; } catch (...) { s32 = 1; }
            try { b32 >> g32; } catch (const ST::unicode_error &) { k32 = 2; } catch (...) { k32 = 1; }
            if (c.want_text) c.text = "C17 is >> ST::string from char16_t/char32_t streams of " + std::to_string(cps.size()) + " scalars";
            if (k16 != s16 || a16.rdstate() != b16.rdstate()) why = "char16_t stream: ST::string extraction ends differently from std::u16string extraction";
            else if (k32 != s32 || a32.rdstate() != b32.rdstate()) why = "char32_t stream: ST::string extraction ends differently from std::u32string extraction";
            else if (!a16.fail() && std::string(g16.c_str(), g16.size()) != [&] { std::string w; ref::Expect e = ref::expect(ref::UTF16, ref::UTF8, ref::CHECK, units_of_w(t16)); for (uint32_t u : e.out) w.push_back((char)u); return w; }()) why = "char16_t stream: stored token differs from the std::u16string token";
            else if (!a32.fail() && std::string(g32.c_str(), g32.size()) != [&] { std::string w; ref::Expect e = ref::expect(ref::UTF32, ref::UTF8, ref::CHECK, units_of_w(t32)); for (uint32_t u : e.out) w.push_back((char)u); return w; }()) why = "char32_t stream: stored token differs from the std::u32string token";
        }
        if (!why.empty()) return c.fail(why);
        return verif::CASE_OK;
    }
}

long verif_enumerate(int shard, int nshards, int tier, verif::EnumReport &r) {
    (void)tier;
    uint8_t cur[8];
    const int outerN = kSweepDims[0] * kSweepDims[1];
    for (int outer = shard; outer < outerN; outer += nshards) {
        SweepPoint p; p.text = outer % kSweepDims[0]; p.len = outer / kSweepDims[0];
        for (p.align = 0; p.align < kSweepDims[2]; p.align++)
        for (p.pad = 0; p.pad < kSweepDims[3]; p.pad++)
        for (p.dw = 0; p.dw < kSweepDims[4]; p.dw++)
        for (p.prec = 0; p.prec < kSweepDims[5]; p.prec++)
        for (p.lit = 0; p.lit < kSweepDims[6]; p.lit++) {
            const int q[7] = {p.text, p.len, p.align, p.pad, p.dw, p.prec, p.lit};
            cur[0] = 0xFF; for (int i = 0; i < 7; i++) cur[1 + i] = (uint8_t)q[i];
            verif::set_current(cur, sizeof cur);
            FormatCase k; sweep_build(p, k);
            Case c; bool nt = false;
            std::string why = check_sinks(k, c, nt);
            r.evaluations++; if (nt) r.nontrivial++;
            bool sample = r.want_sample() && p.align == 2 && p.pad == 1 && p.dw == 4 && p.prec == 0 && p.lit == 1 && p.len == 1 + outer % 5;
            if (!why.empty() || sample) {
                c.want_text = true; render_format_case(k, c);
                if (!why.empty()) { r.failure = why; r.failing_case = c.text; r.failing_bytes.assign(cur, cur + sizeof cur); return r.evaluations; }
                r.samples.push_back(c.text + " -> all 9 sinks agree");
            }
        }
    }
    // long-piece sweep: a multi-unit character at every byte offset within +-4 of 1000..16384 (block sizes an implementation may use)
    {
        long idx = 0;
        for (unsigned bi = 0; bi < 12; bi++) for (unsigned off = 0; off < 9; off++) for (unsigned wi = 0; wi < 6; wi++) for (unsigned ti = 0; ti < 9; ti++, idx++) {
            if (idx % nshards != shard) continue;
            if (!tier && (ti % 3) != (bi + off) % 3) continue;          // quick tier: a third of the argument types per offset
            uint8_t cur2[6] = {0xFC, (uint8_t)bi, (uint8_t)off, (uint8_t)wi, (uint8_t)ti, (uint8_t)(3 + (bi + off) % 5)};
            verif::set_current(cur2, sizeof cur2);
            FormatCase k; k.fmt = ti == 8 ? "" : "[";
            add_long_piece(k, (size_t)kLongBases[bi] + off - 4, kLongWide[wi], cur2[5], ti == 8 ? -1 : (int)ti);
            k.fmt += "]";
            Case c; bool nt = false;
            std::string why = check_sinks(k, c, nt);
            r.evaluations++; r.nontrivial++;
            if (!why.empty()) { c.want_text = true; c.text = "C17 long piece: " + std::to_string(kLongBases[bi] + off - 4) + " ASCII bytes then U+" + verif::hexs(&kLongWide[wi], 3) + (ti == 8 ? " as a literal" : std::string(" as ") + fg::ty_name(kLongTypes[ti]));
                r.failure = why; r.failing_case = c.text; r.failing_bytes.assign(cur2, cur2 + sizeof cur2); return r.evaluations; }
        }
        if (shard == 0) r.exhausted.push_back("long-piece sweep: one 2-/3-/4-byte character (6 scalars) at byte offsets {1000,1020,1024,2040,2048,3000,4090,4096,5000,6144,8192,16384} -4..+4 of an ASCII text passed as 8 argument types or as a literal" + std::string(tier ? "" : " (a third of the types per offset in the quick tier)"));
    }
    if (shard == 0)
        r.exhausted.push_back("sink sweep: text of {a, U+E9, U+20AC, U+1F600, U+7FF, U+FFFF} x lengths {0,1,3,11,12,13,15,16,17} (6 argument types) x alignment {none,<,>} x pad {none,*,0} x "
                              "width {none, natural-1, natural, natural+1, natural+7} x precision {none, 0, half (character boundary), size+1} x 4 literal contexts, 9 sinks each (over all shards)");
    return r.evaluations;
}

void verif_corpus(std::vector<std::vector<uint8_t>> &out) {
    out.push_back({0xFF, 1, 3, 2, 1, 4, 0, 1});
    out.push_back({0, 0x20, 1, 0, 0, 1, 6, 1, 3, 200, 201, 202, 0, 0, 2, 1, 1, 5});
    out.push_back({150, 1, 200, 1, 201, 2, 1, 3, 1, 1, 12, 5, 0, 3});
    out.push_back({180, 5, 0, 200, 201, 202, 203, 3});
    out.push_back({230, 2, 3, 0, 0, 0, 0, 0, 0, 0, 0, 0, 0, 0, 0, 10, 100, 10, 101, 200, 20, 102, 103});
}
