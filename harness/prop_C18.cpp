// C18: a failed operation leaves its target and its arguments unchanged.
#include <string_theory/codecs>
#include <string_theory/format>
#include <string_theory/format_numeric>
#include <string_theory/string>
#include <string_theory/string_stream>

#include <cstdarg>
#include <string>
#include <vector>

#include <sstream>
#include <string_theory/iostream>
#include "common/alloc_track.h"
#include "common/verif.h"
#include "gen/unit_gen.h"
#include "ref/ref_unicode.h"

using verif::Case;
namespace va = verif::alloc;

const verif::Info verif_info = {
    "C18", 500,
    "histories of 1..50 steps over heap-placed objects: 5 ST::string, 2 char_buffer, 1 utf16/utf32/wchar buffer, 2 string_stream, in both storage modes. "
    "30-60% of the steps are designed to fail: malformed UTF-8/16/32 (mutated well-formed text) given to set / operator= (lvalue and rvalue buffers, C strings "
    "of every width, STL strings) / += / operator+ / constructors / from_*; += and + of an invalid code point; to_latin_1(false) on wide characters; "
    "hex_decode/base64_decode of corrupted text assigned to a buffer; ST::format with a bad specifier or missing argument assigned/appended to a string; "
    "string_stream << malformed wide text; string_stream::to_string() on invalid bytes; at() out of range. Oracle: when a step throws ST::unicode_error, "
    "ST::codec_error, ST::bad_format or std::out_of_range, every object (target, lvalue and rvalue arguments, bystanders) has exactly its previous size and "
    "bytes and is NUL-terminated, the number of live library heap blocks is unchanged (nothing leaked), no invalid free happened, and the same objects "
    "are used by later steps; any other exception is a violation. Non-trivial: a failing step whose target or rvalue argument is long (heap) and is used again.",
    false, "exploration"};

namespace {

template <class T> struct Placed {
    T *obj = nullptr; void *raw = nullptr;
    T *make_raw() { raw = ::malloc(sizeof(T)); memset(raw, 0xEE, sizeof(T)); return static_cast<T *>(raw); }
    void kill() { if (obj) { va::LibScope l; obj->~T(); } if (raw) { memset(raw, 0xDD, sizeof(T)); ::free(raw); } obj = nullptr; raw = nullptr; }
};

enum { NSTR = 5, NCB = 2, NSS = 2 };
struct World {
    Placed<ST::string> s[NSTR]; std::string ms[NSTR];
    Placed<ST::char_buffer> cb[NCB]; std::string mcb[NCB];
    Placed<ST::utf16_buffer> b16; std::u16string m16;
    Placed<ST::utf32_buffer> b32; std::u32string m32;
    Placed<ST::wchar_buffer> bw; std::wstring mw;
    Placed<ST::string_stream> ss[NSS]; std::string mss[NSS];
    std::string out, mout;
    ST::float_formatter<double> ff; std::string mff;   // a re-used public formatter object: a rejected letter (bad_format) must leave its text                       // a caller-supplied std::string (to_std_string(std::string&, ...))
    std::string log; bool want_log = false;
    bool nontrivial = false; int pending_long_fail = 0;
    long failed_steps = 0, ok_steps = 0;

    void note(const char *fmt, ...) __attribute__((format(printf, 2, 3))) {
        if (!want_log) return;
        char b[200]; va_list ap; va_start(ap, fmt); vsnprintf(b, sizeof b, fmt, ap); va_end(ap); log += b;
    }
    void init() {
        va::LibScope l;
        for (auto &p : s) p.obj = new (p.make_raw()) ST::string();
        for (auto &p : cb) p.obj = new (p.make_raw()) ST::char_buffer();
        b16.obj = new (b16.make_raw()) ST::utf16_buffer(); b32.obj = new (b32.make_raw()) ST::utf32_buffer(); bw.obj = new (bw.make_raw()) ST::wchar_buffer();
        for (auto &p : ss) p.obj = new (p.make_raw()) ST::string_stream();
    }
    // live library heap blocks that are the storage of one of the objects (a block an object owns is not a leak, whatever its capacity)
    size_t owned_blocks() const {
        size_t n = 0;
        for (const auto &p : s) if (p.obj && va::owns(p.obj->c_str(), 1)) n++;
        for (const auto &p : cb) if (p.obj && va::owns(p.obj->data(), 1)) n++;
        if (b16.obj && va::owns(b16.obj->data(), 1)) n++;
        if (b32.obj && va::owns(b32.obj->data(), 1)) n++;
        if (bw.obj && va::owns(bw.obj->data(), 1)) n++;
        for (const auto &p : ss) if (p.obj && va::owns(p.obj->raw_buffer(), 1)) n++;
        return n;
    }
    // models follow what the objects report (after a successful step)
    void adopt_all() {
        for (int i = 0; i < NSTR; i++) ms[i].assign(s[i].obj->c_str(), s[i].obj->size());
        for (int i = 0; i < NCB; i++) mcb[i].assign(cb[i].obj->data(), cb[i].obj->size());
        m16.assign(b16.obj->data(), b16.obj->size()); m32.assign(b32.obj->data(), b32.obj->size()); mw.assign(bw.obj->data(), bw.obj->size());
        for (int i = 0; i < NSS; i++) mss[i].assign(ss[i].obj->raw_buffer(), ss[i].obj->size());
        mout = out;
        mff.assign(ff.text(), ff.size());
    }
    // everything equals its model; "" when fine
    std::string unchanged() {
        char msg[300];
        for (int i = 0; i < NSTR; i++) { const ST::string &t = *s[i].obj;
            if (t.size() != ms[i].size() || memcmp(t.c_str(), ms[i].data(), ms[i].size()) != 0) { snprintf(msg, sizeof msg, "string %d no longer holds its previous value (size %zu, was %zu): now %s", i, t.size(), ms[i].size(), verif::quoted(std::string(t.c_str(), t.size()), 40).c_str()); return msg; }
            if (t.c_str()[t.size()] != 0) { snprintf(msg, sizeof msg, "string %d lost its NUL terminator", i); return msg; } }
        for (int i = 0; i < NCB; i++) { const ST::char_buffer &t = *cb[i].obj;
            if (t.size() != mcb[i].size() || memcmp(t.data(), mcb[i].data(), mcb[i].size()) != 0) { snprintf(msg, sizeof msg, "char_buffer %d no longer holds its previous value (size %zu, was %zu)", i, t.size(), mcb[i].size()); return msg; }
            if (t.data()[t.size()] != 0) { snprintf(msg, sizeof msg, "char_buffer %d lost its NUL terminator", i); return msg; } }
        if (b16.obj->size() != m16.size() || std::u16string(b16.obj->data(), b16.obj->size()) != m16 || b16.obj->data()[m16.size()] != 0) return "utf16_buffer no longer holds its previous value";
        if (b32.obj->size() != m32.size() || std::u32string(b32.obj->data(), b32.obj->size()) != m32 || b32.obj->data()[m32.size()] != 0) return "utf32_buffer no longer holds its previous value";
        if (bw.obj->size() != mw.size() || std::wstring(bw.obj->data(), bw.obj->size()) != mw || bw.obj->data()[mw.size()] != 0) return "wchar_buffer no longer holds its previous value";
        for (int i = 0; i < NSS; i++) { const ST::string_stream &t = *ss[i].obj;
            if (t.size() != mss[i].size() || memcmp(t.raw_buffer(), mss[i].data(), mss[i].size()) != 0) { snprintf(msg, sizeof msg, "string_stream %d no longer holds its previous content (size %zu, was %zu)", i, t.size(), mss[i].size()); return msg; } }
        if (out != mout) return "the caller-supplied std::string no longer holds its previous value";
        if (std::string(ff.text(), ff.size()) != mff) return "the float_formatter no longer holds its previous text";
        if (const char *e = va::error()) { std::string w = e; va::clear_error(); return w; }
        return std::string();
    }
    ~World() { for (auto &p : s) p.kill(); for (auto &p : cb) p.kill(); b16.kill(); b32.kill(); bw.kill(); for (auto &p : ss) p.kill(); }
};

// ---- inputs
std::string good_utf8(verif::Reader &r, bool longv) {
    std::vector<uint32_t> sc; size_t n = longv ? 20 + r.range(0, 40) : r.range(0, 12); uint8_t st = r.u8();
    for (size_t i = 0; i < n; i++) sc.push_back((st & 1) && i % 4 == 1 ? 0xE9 : (st & 2) && i % 5 == 2 ? 0x20AC : (st & 4) && i % 7 == 3 ? 0x1F600 : 'a' + (i + st) % 26);
    ref::Units u = ref::encode(ref::UTF8, sc); return std::string(u.begin(), u.end());
}
// malformed by construction: a well-formed text with an offending unit inserted in the middle (no NUL inside)
ref::Units bad_units(verif::Reader &r, ref::Enc enc, bool longv, bool huge = false) {
    static const uint16_t hugelens[] = {257, 300, 513, 600, 1025, 1500, 2049, 4100};
    std::vector<uint32_t> sc; size_t n = huge ? r.pick(hugelens) : longv ? 18 + r.range(0, 30) : r.range(0, 8); uint8_t st = r.u8();
    for (size_t i = 0; i < n; i++) sc.push_back((st & 1) && i % 3 == 1 ? 0xE9 : (st & 2) && i % 5 == 2 ? 0x1F600 : 'A' + (i + st) % 26);
    ref::Units u = ref::encode(enc, sc);
    static const uint32_t bad8[] = {0xFF, 0x80, 0xC3, 0xE2, 0xF8, 0xBF}, bad16[] = {0xD800, 0xDC00, 0xDBFF}, bad32[] = {0x110000, 0xFFFFFFFFu, 0x7FFFFFFF};
    size_t pos = u.empty() ? 0 : r.idx(u.size() + 1);
    // inserting before a continuation unit could repair/merge sequences; insert at a character boundary of the scalar sequence instead
    size_t k = sc.empty() ? 0 : r.idx(sc.size() + 1);
    if (huge) k = sc.size() - r.idx(sc.size() / 4 + 1);       // a very long text goes wrong only near its end (after 256 / 512 / 1024 / ... good units)
    pos = 0; for (size_t i = 0; i < k; i++) { ref::Units one; ref::encode_one(enc, sc[i], one); pos += one.size(); }
    uint32_t b = enc == ref::UTF8 ? r.pick(bad8) : enc == ref::UTF16 ? r.pick(bad16) : r.pick(bad32);
    u.insert(u.begin() + pos, b);
    // make sure it really is offending where it stands (e.g. C3 followed by a continuation byte would be well-formed)
    bool off = false; for (const ref::Item &it : ref::decode(enc, u)) if (!it.ok) off = true;
    if (!off) u.insert(u.begin() + pos, enc == ref::UTF8 ? 0xFFu : enc == ref::UTF16 ? 0xD800u : 0x110000u), u.insert(u.begin() + pos + 1, (uint32_t)'!');
    return u;
}
template <class T> std::basic_string<T> typed(const ref::Units &u) { std::basic_string<T> v; for (uint32_t x : u) v.push_back((T)x); return v; }

enum Expect { NONE = 0, UNICODE = 1, CODEC = 2, FORMAT = 4, RANGE = 8 };

// One step.  Returns "" or a violation.  `threw` reports whether a permitted exception was thrown.
std::string step(verif::Reader &r, Case &c, World &w, size_t k) {
    int op = (int)r.range(0, 49), i = (int)r.idx(NSTR), j = (int)r.idx(NCB), q = (int)r.idx(NSS);
    bool longv = r.flag();
    const bool huge = r.chance(20);      // 1 step in 13: very long malformed inputs whose offending unit comes late
    if (huge) c.label("input:very-long-malformed");
    ST::string &S = *w.s[i].obj; ST::char_buffer &B = *w.cb[j].obj; ST::string_stream &Q = *w.ss[q].obj;
    bool target_long = false;
    const char *what = "";
    size_t live_before = va::live_blocks() - w.owned_blocks();      // blocks that no object owns (the objects' footprints etc.): must not grow
    int thrown = NONE; std::string exwhat;
    // inputs are prepared outside the library scope
    std::string g8 = good_utf8(r, longv);
    ref::Units u8 = bad_units(r, ref::UTF8, longv, huge), u16 = bad_units(r, ref::UTF16, longv, huge), u32 = bad_units(r, ref::UTF32, longv, huge);
    std::string bad8 = typed<char>(u8); std::u16string bad16 = typed<char16_t>(u16); std::u32string bad32 = typed<char32_t>(u32); std::wstring badw = typed<wchar_t>(u32);
    for (char &ch : bad8) if (!ch) ch = '0';
    verif::Exact<char> e8(bad8.data(), bad8.size(), true); verif::Exact<char16_t> e16(bad16.data(), bad16.size(), true); verif::Exact<char32_t> e32(bad32.data(), bad32.size(), true); verif::Exact<wchar_t> ew(badw.data(), badw.size(), true);
    try {
        va::LibScope l;
        switch (op) {
        // ---- successful steps that build up state (both storage modes)
        case 0: case 1: S.set(g8.data(), g8.size()); what = "set(valid)"; break;
        case 2: S += ST::string(g8.data(), g8.size()); what = "+=valid"; break;
        case 3: B = ST::char_buffer(g8.data(), g8.size()); what = "buffer=valid"; break;
        case 4: Q.append(g8.data(), g8.size()); what = "stream.append(valid)"; break;
        case 5: *w.b16.obj = ST::utf8_to_utf16(g8.data(), g8.size()); *w.b32.obj = ST::utf8_to_utf32(g8.data(), g8.size()); *w.bw.obj = ST::utf8_to_wchar(g8.data(), g8.size()); what = "wide buffers=valid"; break;
        case 6: B = ST::char_buffer(bad8.data(), bad8.size()); what = "buffer=malformed bytes (plain buffer assignment, must succeed)"; break;
        case 7: *w.b16.obj = ST::utf16_buffer(bad16.data(), bad16.size()); *w.b32.obj = ST::utf32_buffer(bad32.data(), bad32.size()); *w.bw.obj = ST::wchar_buffer(badw.data(), badw.size()); what = "wide buffers=malformed units"; break;
        case 8: Q.append(bad8.data(), bad8.size()); what = "stream.append(malformed bytes)"; break;
        // ---- designed to fail: malformed text into a string target
        case 9: S.set(e8.data(), bad8.size()); what = "set(malformed utf8 ptr,len)"; target_long = S.size() >= 16; break;
        case 10: S.set(B); what = "set(const char_buffer&)"; target_long = S.size() >= 16 || B.size() >= 16; break;
        case 11: S.set(std::move(B)); what = "set(char_buffer&&)"; target_long = S.size() >= 16 || B.size() >= 16; break;
        case 12: S = B; what = "operator=(const char_buffer&)"; target_long = S.size() >= 16; break;
        case 13: S = std::move(B); what = "operator=(char_buffer&&)"; target_long = S.size() >= 16 || B.size() >= 16; break;
        case 14: S = *w.b16.obj; what = "operator=(utf16_buffer)"; target_long = S.size() >= 16; break;
        case 15: S = *w.b32.obj; what = "operator=(utf32_buffer)"; target_long = S.size() >= 16; break;
        case 16: S = *w.bw.obj; what = "operator=(wchar_buffer)"; target_long = S.size() >= 16; break;
        case 17: S = e8.data(); what = "operator=(malformed const char*)"; target_long = S.size() >= 16; break;
        case 18: S = e16.data(); what = "operator=(malformed const char16_t*)"; target_long = S.size() >= 16; break;
        case 19: S = e32.data(); what = "operator=(malformed const char32_t*)"; target_long = S.size() >= 16; break;
        case 20: S = ew.data(); what = "operator=(malformed const wchar_t*)"; target_long = S.size() >= 16; break;
        case 21: S = bad16; what = "operator=(malformed std::u16string)"; target_long = S.size() >= 16; break;
        case 22: S.set(bad32); what = "set(malformed std::u32string)"; target_long = S.size() >= 16; break;
        case 23: S += e8.data(); what = "+=(malformed const char*)"; target_long = S.size() >= 16; break;
        case 24: { int v = (int)r.range(0, 2); if (v == 0) S += e16.data(); else if (v == 1) S += e32.data(); else S += ew.data(); what = "+=(malformed wide cstr)"; target_long = S.size() >= 16; break; }
        case 25: { if (r.flag()) S += (char32_t)0x110000; else S += (wchar_t)0x7FFFFFFF; what = "+=(invalid code point)"; target_long = S.size() >= 16; break; }
        case 26: { ST::string t = r.flag() ? S + (char32_t)0x110000 : (wchar_t)0x110000 + S; S = t; what = "s = s + invalid code point"; target_long = S.size() >= 16; break; }
        case 27: { ST::string t = r.flag() ? S + e8.data() : e16.data() + S; S = std::move(t); what = "s = s + malformed cstr"; target_long = S.size() >= 16; break; }
        case 28: { ST::string t(e8.data(), bad8.size()); S = t; what = "s = string(malformed)"; break; }
        case 29: { ST::string t = r.flag() ? ST::string::from_utf16(e16.data(), bad16.size()) : ST::string::from_utf32(e32.data(), bad32.size()); S = t; what = "s = from_utf16/32(malformed)"; break; }
        case 30: { ST::string t(std::move(B)); S = t; what = "string(char_buffer&&) ctor"; target_long = B.size() >= 16; break; }
        case 31: { ST::char_buffer l1 = S.to_latin_1(false); B = std::move(l1); what = "buffer = s.to_latin_1(false)"; target_long = B.size() >= 16; break; }
        case 32: { ST::string t = S.replace("a", e8.data()); S = std::move(t); what = "s = s.replace(\"a\", malformed)"; target_long = S.size() >= 16; break; }
        // ---- codecs
        case 33: { std::string hx = g8; hx += "zz"; B = ST::hex_decode(ST::string::from_validated(hx.data(), hx.size())); what = "buffer = hex_decode(corrupt)"; target_long = B.size() >= 16; break; }
        case 34: { ST::string enc = ST::base64_encode(g8.data(), g8.size()); std::string t(enc.c_str(), enc.size()); if (t.empty()) t = "A"; else t[t.size() / 2] = r.flag() ? '!' : '='; if (r.flag()) t.pop_back();
                   B = ST::base64_decode(ST::string::from_validated(t.data(), t.size())); what = "buffer = base64_decode(corrupt)"; target_long = B.size() >= 16; break; }
        case 35: { std::string hx = "abc"; B = ST::hex_decode(ST::string(hx.c_str())); what = "buffer = hex_decode(odd length)"; target_long = B.size() >= 16; break; }
        // ---- format
        case 36: { static const char *const badf[] = {"{", "x{&}y", "{_}", "{.}", "{&0}", "{&9}", "{} {} {}", "{>", "{&3}"};
                   const char *f = r.pick(badf); if (r.flag()) S = ST::format(f, S, 1); else S += ST::format(f, 2.5, "z"); what = "s (+)= format(bad spec / missing arg)"; target_long = S.size() >= 16; break; }
        case 37: { S = ST::format("{}", e8.data()); what = "s = format(\"{}\", malformed cstr)"; target_long = S.size() >= 16; break; }
        // ---- streams
        case 38: { int v = (int)r.range(0, 4); if (v == 0) Q << e16.data(); else if (v == 1) Q << e32.data(); else if (v == 2) Q << ew.data(); else if (v == 3) Q << bad16; else Q << std::u32string_view(bad32);
                   what = "stream << malformed wide text"; target_long = Q.size() > 256; break; }
        case 39: { ST::string t = Q.to_string(); S = t; what = "s = stream.to_string()"; target_long = Q.size() > 256 || S.size() >= 16; break; }
        // ---- conversions that write into a caller-supplied object
        case 42: { int v = (int)r.range(0, 2); if (v == 0) S.to_buffer(B, false, false); else if (v == 1) S.to_buffer(B, false, ST::check_validity); else S.to_buffer(B, true, false);
                   what = "s.to_buffer(char_buffer&, latin-1, no substitution)"; target_long = B.size() >= 16; break; }
        case 43: { if (r.flag()) S.to_std_string(w.out, false, false); else w.out = S.to_std_string(false, false); what = "s.to_std_string(std::string&, latin-1, no substitution)"; target_long = w.out.size() >= 16; break; }
        case 44: { int v = (int)r.range(0, 2); if (v == 0) S.to_buffer(*w.b16.obj); else if (v == 1) S.to_buffer(*w.b32.obj); else S.to_buffer(*w.bw.obj); what = "s.to_buffer(wide buffer&)"; break; }
        case 45: { int v = (int)r.range(0, 3);
                   if (v == 0) *w.b16.obj = ST::utf8_to_utf16(e8.data(), bad8.size(), ST::check_validity);
                   else if (v == 1) *w.b32.obj = ST::utf16_to_utf32(e16.data(), bad16.size(), ST::check_validity);
                   else if (v == 2) B = ST::utf32_to_utf8(e32.data(), bad32.size(), ST::check_validity);
                   else B = ST::utf16_to_latin_1(e16.data(), bad16.size(), ST::check_validity, true);
                   what = "buffer = free conversion(malformed, check_validity)"; target_long = B.size() >= 16; break; }
        case 46: { std::istringstream is(std::string(" ") + bad8 + " tail"); is >> S; what = "istream >> s (malformed token)"; target_long = S.size() >= 16; break; }
        case 47: { std::wistringstream is(badw); is >> S; what = "wistream >> s (malformed token)"; target_long = S.size() >= 16; break; }
        case 48: { int v = (int)r.range(0, 2); if (v == 0) S = ST::string::from_std_string(bad8); else if (v == 1) S.set(std::string_view(e8.data(), bad8.size())); else S = ST::string(bad32, ST::check_validity);
                   what = "s = from_std_string / string_view / u32string (malformed)"; target_long = S.size() >= 16; break; }
        case 49: { static const char letters[] = "gfeEqx\x01Z%d"; char l = letters[r.idx(sizeof letters - 1)]; double v = (double)(int)r.range(0, 2000) / 8.0 - 100.0;
                   w.ff.format(v, l); what = "float_formatter::format(value, letter)"; break; }
        // ---- out_of_range
        case 40: { char ch = S.at(S.size() + r.range(0, 3)); (void)ch; what = "s.at(size+k)"; break; }
        default: { char ch = B.at(B.size()); (void)ch; what = "buffer.at(size)"; break; }
        }
    } catch (const ST::unicode_error &e) { thrown = UNICODE; exwhat = e.what();
    } catch (const ST::codec_error &e) { thrown = CODEC; exwhat = e.what();
    } catch (const ST::bad_format &e) { thrown = FORMAT; exwhat = e.what();
    } catch (const std::out_of_range &e) { thrown = RANGE; exwhat = e.what();
    } catch (...) { return "step " + verif::unum(k) + " [" + what + "]: unexpected " + verif::describe_current_exception(); }

    if (thrown) {
        w.failed_steps++;
        c.label(thrown == UNICODE ? "failed:unicode_error" : thrown == CODEC ? "failed:codec_error" : thrown == FORMAT ? "failed:bad_format" : "failed:out_of_range");
        w.note("[%d] FAILS(%s); ", op, exwhat.substr(0, 30).c_str());
        std::string why = w.unchanged();
        if (!why.empty()) return "step " + verif::unum(k) + " (op " + verif::num(op) + ") threw \"" + exwhat + "\" and afterwards " + why;
        if (va::live_blocks() - w.owned_blocks() != live_before) return "step " + verif::unum(k) + " (op " + verif::num(op) + ") threw \"" + exwhat + "\" and leaked " + verif::num((long)(va::live_blocks() - w.owned_blocks()) - (long)live_before) + " heap block(s) (blocks that no object owns)";
        bool anylong = false; for (int x = 0; x < NSTR; x++) if (w.ms[x].size() >= 16) anylong = true; for (int x = 0; x < NCB; x++) if (w.mcb[x].size() >= 16) anylong = true;
        if (anylong) w.pending_long_fail++;
    } else {
        w.ok_steps++;
        if (w.pending_long_fail) w.nontrivial = true;     // the objects that went through a failing step are in use again
        w.note("[%d] ok; ", op);
        w.adopt_all();
        std::string why = w.unchanged();                    // terminator / registry sanity after a successful step
        if (!why.empty()) return "step " + verif::unum(k) + " (op " + verif::num(op) + ", succeeded): " + why;
    }
    (void)target_long;
    return std::string();
}

}  // namespace

int verif_case(const uint8_t *data, size_t size, Case &c) {
    verif::Reader r(data, size, c);
    va::reset();
    std::string why;
    {
        World w; w.want_log = c.want_text;
        w.init(); w.adopt_all();
        size_t nsteps = 1 + r.range(0, 49);
        for (size_t k = 0; k < nsteps && why.empty(); k++) why = step(r, c, w, k);
        c.nontrivial = w.nontrivial;
        if (w.failed_steps && w.ok_steps) c.label("mixed-history");
        if (c.want_text) c.text = "C18 " + verif::num(w.ok_steps) + " ok / " + verif::num(w.failed_steps) + " failing steps: " + (w.log.size() > 900 ? w.log.substr(0, 900) + "..." : w.log);
    }
    if (why.empty() && va::live_blocks() != 0) why = "leak: " + verif::unum(va::live_blocks()) + " heap block(s) still allocated after every object was destroyed";
    if (why.empty()) if (const char *e = va::error()) why = e;
    va::reset();
    if (!why.empty()) return c.fail(why);
    return verif::CASE_OK;
}

long verif_enumerate(int, int, int, verif::EnumReport &) { return 0; }
void verif_corpus(std::vector<std::vector<uint8_t>> &out) {
    out.push_back({3, 0, 0, 0, 0, 1, 3, 0, 0, 0, 1, 1, 11, 0, 0, 0, 1, 5});
    out.push_back({2, 6, 0, 0, 0, 1, 2, 13, 0, 0, 0, 1, 7});
}
