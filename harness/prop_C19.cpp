// C19: allocation failure propagates cleanly and leaves every object destructible.
// Technique: injected faults, enumerated - for an operation instance the number N of allocations it performs is
// measured, then the instance is re-run N times with the k-th allocation (k = 1..N) throwing std::bad_alloc.
#include <string_theory/codecs>
#include <string_theory/format>
#include <string_theory/string>
#include <string_theory/string_stream>
#include <string_theory/stdio>
#include <string_theory/iostream>

#include <cstdio>
#include <cstdlib>
#include <cstring>
#include <initializer_list>
#include <ostream>
#include <streambuf>
#include <string>
#include <vector>

#include "common/alloc_track.h"
#include "common/verif.h"

using verif::Case;
namespace va = verif::alloc;

const verif::Info verif_info = {
    "C19", 16,
    "operation instance = (operation from a catalogue of ~90 allocating operations: buffer construction/copy/assign/allocate/to_std_string; ST::string "
    "construction from every encoding, set, copy/assign, +=, operator+, substr/left/right/trim, replace, split x3, tokenize, case mapping, to_utf8/16/32/wchar/"
    "latin_1/std strings, from_int/float, fill, before/after, free conversions, hex/base64 encode/decode, format, format_latin_1, string_stream append/<</"
    "to_string/move) x (argument size class: short / at the small-string limit / long / several stream doublings) x (target short or long) x (source short "
    "or long). For each instance every allocation it performs is failed in turn (k = 1..N). Oracle: std::bad_alloc reaches the caller (no terminate, no "
    "other type, not swallowed); no invalid/double free at any point; every object involved is still readable with consistent size/terminator, owns its "
    "storage, the target holds its previous value or an empty value, non-target arguments their previous value; every object can then be assigned to and "
    "destroyed, after which no library block remains. Non-trivial: the failing allocation is not the first one of the operation, or the target is long.",
    true, "fault_enumeration"};

namespace {

template <class T> struct Placed {
    T *obj = nullptr; void *raw = nullptr;
    T *slot() { raw = ::malloc(sizeof(T)); memset(raw, 0xEE, sizeof(T)); return static_cast<T *>(raw); }
    void kill() { if (obj) { va::LibScope l; obj->~T(); } if (raw) { memset(raw, 0xDD, sizeof(T)); ::free(raw); } obj = nullptr; raw = nullptr; }
    bool inside(const void *p) const { return raw && (const char *)p >= (const char *)raw && (const char *)p < (const char *)raw + sizeof(T); }
};

enum Target { TGT_NONE, TGT_T, TGT_CB, TGT_U16, TGT_U32, TGT_W, TGT_SS };

// a stream buffer over a fixed static array: it never allocates, so an injected allocation failure inside ST::writef is the library's own
template <class CT> struct FixedBuf : std::basic_streambuf<CT> {
    static CT *area() { static CT a[1 << 15]; return a; }
    FixedBuf() { this->setp(area(), area() + (1 << 15)); }
    size_t count() const { return (size_t)(this->pptr() - this->pbase()); }
};

struct Fixture {
    Placed<ST::string> T, A, B;
    Placed<ST::char_buffer> CB, CB2;
    Placed<ST::utf16_buffer> U16, U16b;
    Placed<ST::utf32_buffer> U32, U32b;
    Placed<ST::wchar_buffer> W, Wb;
    Placed<ST::string_stream> SS;
    // raw inputs (harness-owned, built before the fault is armed)
    std::string raw8, latin1, hexs, b64s; std::u16string raw16; std::u32string raw32; std::wstring raww;
    verif::Exact<char> *x8 = nullptr; verif::Exact<char16_t> *x16 = nullptr; verif::Exact<char32_t> *x32 = nullptr; verif::Exact<wchar_t> *xw = nullptr;
    ST::string *HEX = nullptr, *B64 = nullptr;     // encoded texts for the decoders (library objects, built before arming)
    ST::string *BIG = nullptr;                      // a long haystack that contains the n-byte text x8 (as given, and once in upper case): searches with long needles
    size_t n = 0;                                   // the "size" argument of the instance
    // models
    std::string mT, mA, mB, mCB, mCB2, mSS; std::u16string mU16, mU16b; std::u32string mU32, mU32b; std::wstring mW, mWb;

    static std::string text(size_t n, int style) {
        std::string s;
        while (s.size() < n) { size_t i = s.size();
            if (style == 1 && i % 5 == 1 && s.size() + 2 <= n) { s += "\xC3\xA9"; continue; }
            if (style == 2 && i % 6 == 2 && s.size() + 3 <= n) { s += "\xE2\x82\xAC"; continue; }
            if (i % 7 == 3) { s += ','; continue; }
            if (i % 7 == 5) { s += ' '; continue; }
            s += (char)('a' + i % 26); }
        return s;
    }
    // ext: extra pre-states (histories) of the objects - 1 stream grown to the heap then truncate(0); 2 grown then erased down to 3 bytes;
    // 3 fresh empty stream; 4 default-constructed (empty) targets; 5 moved-from targets; 6 = 3+4; 7 = 1+4
    void build(size_t size_arg, bool t_long, bool a_long, bool ss_heap, int ext = 0, bool huge = false) {
        n = size_arg;
        raw8 = text(n, 1); latin1 = raw8; for (char &ch : latin1) if ((unsigned char)ch >= 0x80) ch = (char)0xE9;
        for (size_t i = 0; i < n; i++) { uint32_t v = (i % 4 == 1) ? 0xE9 : (i % 6 == 2) ? 0x1F600 : 'A' + i % 26; raw32.push_back(v); raww.push_back((wchar_t)v);
            if (v >= 0x10000) { raw16.push_back((char16_t)(0xD800 + ((v - 0x10000) >> 10))); raw16.push_back((char16_t)(0xDC00 + ((v - 0x10000) & 0x3FF))); } else raw16.push_back((char16_t)v); }
        x8 = new verif::Exact<char>(raw8.data(), raw8.size(), true); x16 = new verif::Exact<char16_t>(raw16.data(), raw16.size(), true);
        x32 = new verif::Exact<char32_t>(raw32.data(), raw32.size(), true); xw = new verif::Exact<wchar_t>(raww.data(), raww.size(), true);
        std::string tv = text(t_long ? 40 : 5, 2), av = text(a_long ? 48 : 7, 1), bv = a_long ? std::string(", ") : std::string("b");
        std::string cbv = text(t_long ? 33 : 4, 0), cb2v = text(a_long ? 37 : 6, 0);
        {
            va::LibScope l;
            T.obj = new (T.slot()) ST::string(tv.data(), tv.size()); A.obj = new (A.slot()) ST::string(av.data(), av.size()); B.obj = new (B.slot()) ST::string(bv.data(), bv.size());
            CB.obj = new (CB.slot()) ST::char_buffer(cbv.data(), cbv.size()); CB2.obj = new (CB2.slot()) ST::char_buffer(cb2v.data(), cb2v.size());
            U16.obj = new (U16.slot()) ST::utf16_buffer(t_long ? 30 : 3, u'u'); U16b.obj = new (U16b.slot()) ST::utf16_buffer(a_long ? 31 : 2, u'v');
            U32.obj = new (U32.slot()) ST::utf32_buffer(t_long ? 30 : 3, U'u'); U32b.obj = new (U32b.slot()) ST::utf32_buffer(a_long ? 31 : 2, U'v');
            W.obj = new (W.slot()) ST::wchar_buffer(t_long ? 30 : 3, L'u'); Wb.obj = new (Wb.slot()) ST::wchar_buffer(a_long ? 31 : 2, L'v');
            SS.obj = new (SS.slot()) ST::string_stream();
            if (ext == 1 || ext == 7) { SS.obj->append_char('s', ss_heap ? 3000 : 700); SS.obj->truncate(0); }
            else if (ext == 2) { SS.obj->append_char('s', ss_heap ? 3000 : 700); SS.obj->erase(SS.obj->size() - 3); }
            else if (ext == 3 || ext == 6) { }
            else if (ss_heap) SS.obj->append_char('s', 700); else SS.obj->append("stream", 6);
            if (ext == 4 || ext == 6 || ext == 7) { *T.obj = ST::string(); *CB.obj = ST::char_buffer(); *U16.obj = ST::utf16_buffer(); *U32.obj = ST::utf32_buffer(); *W.obj = ST::wchar_buffer(); }
            if (huge) {      // targets that own a heap block of 1 MiB + 3 units (an implementation may treat big blocks differently)
                *T.obj = ST::string::fill((1u << 20) + 3, 'h'); *CB.obj = ST::char_buffer((1u << 20) + 3, 'h'); *U16.obj = ST::utf16_buffer((1u << 19) + 3, u'h');
                *U32.obj = ST::utf32_buffer((1u << 18) + 3, U'h'); *W.obj = ST::wchar_buffer((1u << 20) / sizeof(wchar_t) + 3, L'h');
            }
            else if (ext == 5) { ST::string t(std::move(*T.obj)); ST::char_buffer c(std::move(*CB.obj)); ST::utf16_buffer u(std::move(*U16.obj)); ST::utf32_buffer v(std::move(*U32.obj)); ST::wchar_buffer x(std::move(*W.obj)); }
            HEX = new ST::string(ST::hex_encode(raw8.data(), raw8.size())); B64 = new ST::string(ST::base64_encode(raw8.data(), raw8.size()));
            { std::string up = raw8; for (char &ch : up) if (ch >= 'a' && ch <= 'z') ch = (char)(ch - 32);
              std::string big = "## head of the haystack, " + up + " -- " + raw8 + " ; and a tail that is not the needle ##"; BIG = new ST::string(ST::string::from_validated(big.data(), big.size())); }
        }
        snapshot();
    }
    void snapshot() {
        mT.assign(T.obj->c_str(), T.obj->size()); mA.assign(A.obj->c_str(), A.obj->size()); mB.assign(B.obj->c_str(), B.obj->size());
        mCB.assign(CB.obj->data(), CB.obj->size()); mCB2.assign(CB2.obj->data(), CB2.obj->size());
        mU16.assign(U16.obj->data(), U16.obj->size()); mU16b.assign(U16b.obj->data(), U16b.obj->size());
        mU32.assign(U32.obj->data(), U32.obj->size()); mU32b.assign(U32b.obj->data(), U32b.obj->size());
        mW.assign(W.obj->data(), W.obj->size()); mWb.assign(Wb.obj->data(), Wb.obj->size());
        mSS.assign(SS.obj->raw_buffer(), SS.obj->size());
    }
    template <class P, class M> std::string one(const char *name, P &p, const M &model, bool is_target) {
        typedef typename M::value_type CT;
        size_t sz = p.obj->size(); const CT *d = reinterpret_cast<const CT *>(p.obj->data());
        if (!d) return std::string(name) + ": data() is null";
        M now(d, sz);                                            // reads every unit: released storage => ASan
        if (d[sz] != 0) return std::string(name) + " is not NUL-terminated after the failed operation";
        if (!p.inside(d) && !va::owns(d, (sz + 1) * sizeof(CT))) return std::string(name) + " points to storage it does not own (released or foreign block) after the failed operation";
        if (now == model) return std::string();
        if (is_target && sz == 0) return std::string();          // "previous value or an empty value"
        return std::string(name) + (is_target ? " (the target) holds neither its previous value nor an empty value" : " (a non-target argument) changed") + ": size " + verif::unum(sz) + ", was " + verif::unum(model.size());
    }
    std::string verify(Target tgt) {
        std::string w;
        auto str = [&](const char *name, Placed<ST::string> &p, const std::string &m, bool t) -> std::string {
            size_t sz = p.obj->size(); const char *d = p.obj->c_str(); std::string now(d, sz);
            if (d[sz] != 0) return std::string(name) + " is not NUL-terminated after the failed operation";
            if (!p.inside(d) && !va::owns(d, sz + 1)) return std::string(name) + " points to storage it does not own (released or foreign block) after the failed operation";
            if (now == m || (t && sz == 0)) return std::string();
            return std::string(name) + (t ? " (the target) holds neither its previous value nor an empty value" : " (a non-target argument) changed") + ": size " + verif::unum(sz) + ", was " + verif::unum(m.size()); };
        if (!(w = str("string T", T, mT, tgt == TGT_T)).empty()) return w;
        if (!(w = str("string A", A, mA, false)).empty()) return w;
        if (!(w = str("string B", B, mB, false)).empty()) return w;
        if (!(w = one("char_buffer CB", CB, mCB, tgt == TGT_CB)).empty()) return w;
        if (!(w = one("char_buffer CB2", CB2, mCB2, false)).empty()) return w;
        if (!(w = one("utf16_buffer U16", U16, mU16, tgt == TGT_U16)).empty()) return w;
        if (!(w = one("utf16_buffer U16b", U16b, mU16b, false)).empty()) return w;
        if (!(w = one("utf32_buffer U32", U32, mU32, tgt == TGT_U32)).empty()) return w;
        if (!(w = one("utf32_buffer U32b", U32b, mU32b, false)).empty()) return w;
        if (!(w = one("wchar_buffer W", W, mW, tgt == TGT_W)).empty()) return w;
        if (!(w = one("wchar_buffer Wb", Wb, mWb, false)).empty()) return w;
        {
            size_t sz = SS.obj->size(); const char *d = SS.obj->raw_buffer(); std::string now(d, sz);
            if (!SS.inside(d) && !va::owns(d, sz)) return "string_stream points to storage it does not own after the failed operation";
            if (!(now == mSS || (tgt == TGT_SS && sz == 0))) return std::string("string_stream ") + (tgt == TGT_SS ? "(the target) holds neither its previous content nor nothing" : "(not the target) changed");
        }
        if (const char *e = va::error()) { std::string r = e; va::clear_error(); return r; }
        return std::string();
    }
    // every object can still be assigned to and destroyed
    std::string reuse_and_destroy() {
        try {
            va::LibScope l;
            *T.obj = "reassigned after the failure, long enough to need the heap"; *A.obj = *T.obj; *B.obj += *A.obj;
            *CB.obj = ST::char_buffer(40, 'z'); CB2.obj->allocate(50, 'y'); *U16.obj = *U16b.obj; U16b.obj->allocate(20, u'q'); *U32.obj = ST::utf32_buffer(25, U'w'); U32b.obj->clear();
            *W.obj = *Wb.obj; Wb.obj->allocate(18, L'p'); SS.obj->append_char('r', 2000); SS.obj->truncate(3); *SS.obj << 12345;
        } catch (...) { return "re-using the objects after the failure: " + verif::describe_current_exception(); }
        destroy();
        if (const char *e = va::error()) { std::string r = e; va::clear_error(); return r; }
        if (va::live_blocks() != 0) return verif::unum(va::live_blocks()) + " heap block(s) leaked (still allocated after every object was destroyed)";
        return std::string();
    }
    void destroy() {
        T.kill(); A.kill(); B.kill(); CB.kill(); CB2.kill(); U16.kill(); U16b.kill(); U32.kill(); U32b.kill(); W.kill(); Wb.kill(); SS.kill();
        { va::LibScope l; delete HEX; delete B64; delete BIG; } HEX = B64 = BIG = nullptr;
        delete x8; delete x16; delete x32; delete xw; x8 = nullptr; x16 = nullptr; x32 = nullptr; xw = nullptr;
    }
    ~Fixture() { try { destroy(); } catch (...) {} }
};

struct Op { const char *name; Target target; void (*run)(Fixture &); };
#define OP(name, tgt, body) {name, tgt, [](Fixture &f) { (void)f; body; }}
volatile size_t g_sink;

const Op kOps[] = {
    // ---- buffers
    OP("char_buffer(ptr,n)", TGT_NONE, ST::char_buffer x(f.x8->data(), f.raw8.size()); g_sink = x.size()),
    OP("char_buffer(n,fill)", TGT_NONE, ST::char_buffer x(f.n, 'c'); g_sink = x.size()),
    OP("char_buffer(copy)", TGT_NONE, ST::char_buffer x(*f.CB2.obj); g_sink = x.size()),
    OP("CB = CB2 (copy assign)", TGT_CB, *f.CB.obj = *f.CB2.obj),
    OP("CB = char_buffer(ptr,n)", TGT_CB, *f.CB.obj = ST::char_buffer(f.x8->data(), f.raw8.size())),
    OP("CB.allocate(n)", TGT_CB, f.CB.obj->allocate(f.n); memset(f.CB.obj->data(), 'k', f.n)),
    OP("CB.allocate(n,fill)", TGT_CB, f.CB.obj->allocate(f.n, 'f')),
    OP("CB.to_std_string()", TGT_NONE, g_sink = f.CB2.obj->to_std_string().size()),
    OP("U16 = U16b", TGT_U16, *f.U16.obj = *f.U16b.obj),
    OP("U16.allocate(n)", TGT_U16, f.U16.obj->allocate(f.n, u'a')),
    OP("U32 = U32b", TGT_U32, *f.U32.obj = *f.U32b.obj),
    OP("U32.allocate(n)", TGT_U32, f.U32.obj->allocate(f.n, U'a')),
    OP("W = Wb", TGT_W, *f.W.obj = *f.Wb.obj),
    OP("W.allocate(n)", TGT_W, f.W.obj->allocate(f.n, L'a')),
    OP("utf16_buffer(copy)+utf32_buffer(ptr,n)", TGT_NONE, ST::utf16_buffer x(*f.U16b.obj); ST::utf32_buffer y(f.x32->data(), f.raw32.size()); g_sink = x.size() + y.size()),
    // ---- string construction / assignment from every encoding
    OP("string(utf8 ptr,n)", TGT_NONE, ST::string x(f.x8->data(), f.raw8.size()); g_sink = x.size()),
    OP("string(utf8 ptr,n,substitute)", TGT_NONE, ST::string x(f.x8->data(), f.raw8.size(), ST::substitute_invalid); g_sink = x.size()),
    OP("string(char16_t*)", TGT_NONE, ST::string x(f.x16->data()); g_sink = x.size()),
    OP("string(char32_t*,n)", TGT_NONE, ST::string x(f.x32->data(), f.raw32.size()); g_sink = x.size()),
    OP("string(wchar_t*)", TGT_NONE, ST::string x(f.xw->data()); g_sink = x.size()),
    OP("string(copy A)", TGT_NONE, ST::string x(*f.A.obj); g_sink = x.size()),
    OP("string(std::string)", TGT_NONE, ST::string x(f.raw8); g_sink = x.size()),
    OP("string(std::u16string)", TGT_NONE, ST::string x(f.raw16); g_sink = x.size()),
    OP("T = A", TGT_T, *f.T.obj = *f.A.obj),
    OP("T.set(A)", TGT_T, f.T.obj->set(*f.A.obj)),
    OP("T.set(utf8 ptr,n)", TGT_T, f.T.obj->set(f.x8->data(), f.raw8.size())),
    OP("T = const char*", TGT_T, *f.T.obj = f.x8->data()),
    OP("T = const char16_t*", TGT_T, *f.T.obj = f.x16->data()),
    OP("T = std::u32string", TGT_T, *f.T.obj = f.raw32),
    OP("T.set(std::wstring)", TGT_T, f.T.obj->set(f.raww)),
    OP("T = CB2 (const char_buffer&)", TGT_T, *f.T.obj = *f.CB2.obj),
    OP("T.set(CB2, substitute)", TGT_T, f.T.obj->set(*f.CB2.obj, ST::substitute_invalid)),
    OP("T.set(U16b)", TGT_T, f.T.obj->set(*f.U16b.obj)),
    OP("T.set(U32b)", TGT_T, f.T.obj->set(*f.U32b.obj)),
    OP("T.set(Wb)", TGT_T, f.T.obj->set(*f.Wb.obj)),
    OP("T = from_utf8(ptr,n)", TGT_T, *f.T.obj = ST::string::from_utf8(f.x8->data(), f.raw8.size())),
    OP("T = from_utf16", TGT_T, *f.T.obj = ST::string::from_utf16(f.x16->data(), f.raw16.size())),
    OP("T = from_utf32", TGT_T, *f.T.obj = ST::string::from_utf32(f.x32->data(), f.raw32.size())),
    OP("T = from_wchar", TGT_T, *f.T.obj = ST::string::from_wchar(f.xw->data(), f.raww.size())),
    OP("T = from_latin_1", TGT_T, *f.T.obj = ST::string::from_latin_1(f.latin1.data(), f.latin1.size())),
    OP("T = from_validated(ptr,n)", TGT_T, *f.T.obj = ST::string::from_validated(f.x8->data(), f.raw8.size())),
    OP("T = from_std_string(u16)", TGT_T, *f.T.obj = ST::string::from_std_string(f.raw16)),
    // ---- += and +
    OP("T += A", TGT_T, *f.T.obj += *f.A.obj),
    OP("T += T", TGT_T, *f.T.obj += *f.T.obj),
    OP("T += const char*", TGT_T, *f.T.obj += f.x8->data()),
    OP("T += const char16_t*", TGT_T, *f.T.obj += f.x16->data()),
    OP("T += char32_t", TGT_T, *f.T.obj += U'\U0001F600'),
    OP("T += char", TGT_T, *f.T.obj += 'c'),
    OP("A + B", TGT_NONE, g_sink = (*f.A.obj + *f.B.obj).size()),
    OP("A + cstr / cstr + A", TGT_NONE, g_sink = (*f.A.obj + f.x8->data()).size() + (f.x8->data() + *f.A.obj).size()),
    OP("A + char32_t / wide cstr", TGT_NONE, g_sink = (*f.A.obj + U'€').size() + (*f.A.obj + f.x32->data()).size() + (f.xw->data() + *f.A.obj).size()),
    // ---- slicing
    OP("A.substr(1,n)", TGT_NONE, g_sink = f.A.obj->substr(1, f.n).size()),
    OP("A.left(n)/right(n)", TGT_NONE, g_sink = f.A.obj->left(f.n).size() + f.A.obj->right(f.n).size()),
    OP("T = A.substr(-n)", TGT_T, *f.T.obj = f.A.obj->substr(-(ST_ssize_t)f.n)),
    OP("A.trim*", TGT_NONE, g_sink = f.A.obj->trim("a,").size() + f.A.obj->trim_left("ab").size() + f.A.obj->trim_right("xyz ,").size()),
    OP("A.before/after", TGT_NONE, g_sink = f.A.obj->before_first(',').size() + f.A.obj->after_first(*f.B.obj).size() + f.A.obj->before_last(" ").size() + f.A.obj->after_last(',').size()),
    // ---- replace / split / tokenize / case
    OP("A.replace(B,T)", TGT_NONE, g_sink = f.A.obj->replace(*f.B.obj, *f.T.obj).size()),
    OP("A.replace(cstr,cstr)", TGT_NONE, g_sink = f.A.obj->replace("a", "\xC3\xA9\xC3\xA9\xC3\xA9").size()),
    OP("T = A.replace(B, cstr) ci", TGT_T, *f.T.obj = f.A.obj->replace(*f.B.obj, "--", ST::case_insensitive)),
    OP("A.split(char)", TGT_NONE, g_sink = f.A.obj->split(',').size()),
    OP("A.split(cstr)", TGT_NONE, g_sink = f.A.obj->split(" ").size()),
    OP("A.split(B)", TGT_NONE, g_sink = f.A.obj->split(*f.B.obj).size()),
    OP("A.split(cstr non-ascii)", TGT_NONE, g_sink = f.A.obj->split("\xC3\xA9").size()),
    OP("A.tokenize()", TGT_NONE, g_sink = f.A.obj->tokenize().size() + f.A.obj->tokenize(",").size()),
    OP("A.to_upper/lower", TGT_NONE, g_sink = f.A.obj->to_upper().size() + f.A.obj->to_lower().size()),
    // ---- conversions out of a string
    OP("A.to_utf8()", TGT_NONE, g_sink = f.A.obj->to_utf8().size()),
    OP("A.to_utf16()", TGT_NONE, g_sink = f.A.obj->to_utf16().size()),
    OP("A.to_utf32()", TGT_NONE, g_sink = f.A.obj->to_utf32().size()),
    OP("A.to_wchar()", TGT_NONE, g_sink = f.A.obj->to_wchar().size()),
    OP("A.to_latin_1()", TGT_NONE, g_sink = f.A.obj->to_latin_1().size()),
    OP("A.to_std_*string", TGT_NONE, g_sink = f.A.obj->to_std_string().size() + f.A.obj->to_std_wstring().size() + f.A.obj->to_std_u16string().size() + f.A.obj->to_std_u32string().size() + f.A.obj->to_std_string(false).size()),
    OP("A.to_buffer(CB)", TGT_CB, f.A.obj->to_buffer(*f.CB.obj)),
    OP("A.to_buffer(U16)", TGT_U16, f.A.obj->to_buffer(*f.U16.obj)),
    OP("A.to_buffer(U32)/(W)", TGT_U32, f.A.obj->to_buffer(*f.U32.obj)),
    // ---- number / fill factories
    OP("from_int/from_uint (long results)", TGT_NONE, g_sink = ST::string::from_int(-1234567890123456789LL, 2).size() + ST::string::from_uint(0xFFFFFFFFFFFFFFFFULL, 3).size()),
    OP("from_double(1e100,'f')", TGT_NONE, g_sink = ST::string::from_double(1e100, 'f').size() + ST::string::from_float(1.5f).size()),
    OP("fill(n)", TGT_NONE, g_sink = ST::string::fill(f.n, 'x').size()),
    OP("T = from_int", TGT_T, *f.T.obj = ST::string::from_int(-1234567890123456789LL, 2)),
    // ---- free conversions
    OP("utf8_to_utf16/32/wchar/latin_1", TGT_NONE, g_sink = ST::utf8_to_utf16(f.x8->data(), f.raw8.size()).size() + ST::utf8_to_utf32(f.x8->data(), f.raw8.size()).size() + ST::utf8_to_wchar(f.x8->data(), f.raw8.size()).size() + ST::utf8_to_latin_1(f.x8->data(), f.raw8.size()).size()),
    OP("utf16_to_utf8/32/latin_1", TGT_NONE, g_sink = ST::utf16_to_utf8(f.x16->data(), f.raw16.size()).size() + ST::utf16_to_utf32(f.x16->data(), f.raw16.size()).size() + ST::utf16_to_latin_1(f.x16->data(), f.raw16.size()).size()),
    OP("utf32_to_utf8/16/wchar/latin_1", TGT_NONE, g_sink = ST::utf32_to_utf8(f.x32->data(), f.raw32.size()).size() + ST::utf32_to_utf16(f.x32->data(), f.raw32.size()).size() + ST::utf32_to_wchar(f.x32->data(), f.raw32.size()).size() + ST::utf32_to_latin_1(f.x32->data(), f.raw32.size()).size()),
    OP("latin_1_to_utf8/16/32/wchar", TGT_NONE, g_sink = ST::latin_1_to_utf8(f.latin1.data(), f.latin1.size()).size() + ST::latin_1_to_utf16(f.latin1.data(), f.latin1.size()).size() + ST::latin_1_to_utf32(f.latin1.data(), f.latin1.size()).size() + ST::latin_1_to_wchar(f.latin1.data(), f.latin1.size()).size()),
    OP("CB = utf16_to_utf8(...)", TGT_CB, *f.CB.obj = ST::utf16_to_utf8(f.x16->data(), f.raw16.size())),
    // ---- codecs
    OP("hex_encode / base64_encode", TGT_NONE, g_sink = ST::hex_encode(f.x8->data(), f.raw8.size()).size() + ST::base64_encode(*f.CB2.obj).size()),
    OP("CB = hex_decode(HEX)", TGT_CB, *f.CB.obj = ST::hex_decode(*f.HEX)),
    OP("CB = base64_decode(B64)", TGT_CB, *f.CB.obj = ST::base64_decode(*f.B64)),
    OP("T = hex_encode(CB2)", TGT_T, *f.T.obj = ST::hex_encode(*f.CB2.obj)),
    // ---- formatting
    OP("ST::format", TGT_NONE, g_sink = ST::format("{} {>30} {x} {.3f} {<12_*}|", *f.A.obj, *f.B.obj, 255, 2.5, "pad").size()),
    OP("T = ST::format(width n)", TGT_T, *f.T.obj = ST::format("[{}]{5}", *f.A.obj, f.n)),
    OP("T += ST::format", TGT_T, *f.T.obj += ST::format("{}-{}", 12, *f.A.obj)),
    OP("ST::format_latin_1", TGT_NONE, g_sink = ST::format_latin_1("{}\xE9{}", *f.A.obj, f.latin1.c_str()).size()),
    OP("ST::format with wide/STL args", TGT_NONE, g_sink = ST::format("{}{}{}", f.x16->data(), f.raww, f.raw8).size()),
    // ---- string_stream
    OP("SS.append(ptr,n)", TGT_SS, f.SS.obj->append(f.x8->data(), f.raw8.size())),
    OP("SS.append_char(c,n)", TGT_SS, f.SS.obj->append_char('g', f.n)),
    // (one library operation per entry: a compound statement could legitimately commit its first half)
    OP("SS << A", TGT_SS, *f.SS.obj << *f.A.obj),
    OP("SS << cstr", TGT_SS, *f.SS.obj << f.x8->data()),
    OP("SS << std::string", TGT_SS, *f.SS.obj << f.raw8),
    OP("SS << const char16_t*", TGT_SS, *f.SS.obj << f.x16->data()),
    OP("SS << std::u32string", TGT_SS, *f.SS.obj << f.raw32),
    OP("SS << const wchar_t*", TGT_SS, *f.SS.obj << f.xw->data()),
    OP("SS << unsigned long long", TGT_SS, *f.SS.obj << 18446744073709551615ULL),
    OP("SS << double", TGT_SS, *f.SS.obj << 2.5),
    OP("SS.to_string()", TGT_NONE, g_sink = f.SS.obj->to_string().size() + f.SS.obj->to_string(false).size()),
    OP("T = SS.to_string()", TGT_T, *f.T.obj = f.SS.obj->to_string()),
    OP("stream move + append", TGT_SS, ST::string_stream m(std::move(*f.SS.obj)); m.append_char('m', f.n); *f.SS.obj = std::move(m)),
    // ---- operations that normally allocate nothing (searching, comparing, hashing, parsing): they are part of the catalogue so that an
    //      allocation introduced into one of them is subjected to the same faults (most of them are noexcept: a throw would terminate)
    OP("A.find(cstr) cs", TGT_NONE, g_sink = (size_t)f.A.obj->find(f.x8->data())),
    OP("A.find(cstr) ci", TGT_NONE, g_sink = (size_t)f.A.obj->find(f.x8->data(), ST::case_insensitive)),
    OP("A.find(start, string) ci", TGT_NONE, g_sink = (size_t)f.A.obj->find(1, *f.T.obj, ST::case_insensitive)),
    OP("A.find_last(cstr) ci", TGT_NONE, g_sink = (size_t)f.A.obj->find_last(f.x8->data(), ST::case_insensitive)),
    OP("A.find_last(string) cs", TGT_NONE, g_sink = (size_t)f.A.obj->find_last(*f.T.obj)),
    OP("A.contains(cstr) ci", TGT_NONE, g_sink = f.A.obj->contains(f.x8->data(), ST::case_insensitive)),
    OP("A.contains(char) ci", TGT_NONE, g_sink = f.A.obj->contains('Q', ST::case_insensitive)),
    OP("A.starts_with/ends_with(cstr) ci", TGT_NONE, g_sink = f.A.obj->starts_with(f.x8->data(), ST::case_insensitive) + f.A.obj->ends_with(f.x8->data(), ST::case_insensitive)),
    OP("A.compare(T) cs/ci + operators", TGT_NONE, g_sink = (size_t)f.A.obj->compare(*f.T.obj) + (size_t)f.A.obj->compare_i(*f.T.obj) + (*f.A.obj == *f.T.obj) + (*f.A.obj < *f.T.obj) + (size_t)f.A.obj->compare_n(f.x8->data(), 5, ST::case_insensitive)),
    OP("hash / hash_i / std::hash", TGT_NONE, g_sink = ST::hash()(*f.A.obj) + ST::hash_i()(*f.A.obj) + std::hash<ST::string>()(*f.T.obj)),
    OP("A.to_int / to_double / to_bool", TGT_NONE, g_sink = (size_t)f.A.obj->to_int() + (size_t)f.A.obj->to_ulong_long(16) + (size_t)f.A.obj->to_double() + f.A.obj->to_bool()),
    OP("A.before_first(cstr) ci", TGT_NONE, g_sink = f.A.obj->before_first(f.x8->data(), ST::case_insensitive).size()),
    OP("A.after_last(string) ci", TGT_NONE, g_sink = f.A.obj->after_last(*f.B.obj, ST::case_insensitive).size()),
    OP("A.split(cstr) ci", TGT_NONE, g_sink = f.A.obj->split(f.x8->data(), (size_t)-1, ST::case_insensitive).size()),
    OP("A.replace(cstr, cstr) ci", TGT_NONE, g_sink = f.A.obj->replace(f.x8->data(), "+", ST::case_insensitive).size()),
    // searches in a long haystack with the n-byte needle (n up to 1100): an implementation that prepares the needle (folding, tables) may allocate
    OP("BIG.find / find_last / contains (n-byte needle) ci", TGT_NONE, g_sink = (size_t)f.BIG->find(f.x8->data(), ST::case_insensitive) + (size_t)f.BIG->find_last(f.x8->data(), ST::case_insensitive) + f.BIG->contains(f.x8->data(), ST::case_insensitive)),
    OP("BIG.find / find_last (n-byte needle) cs", TGT_NONE, g_sink = (size_t)f.BIG->find(f.x8->data()) + (size_t)f.BIG->find_last(f.x8->data()) + (size_t)f.BIG->find(3, f.x8->data(), f.n / 2, ST::case_sensitive)),
    OP("BIG.before_first / after_last (n-byte needle) ci", TGT_NONE, g_sink = f.BIG->before_first(f.x8->data(), ST::case_insensitive).size() + f.BIG->after_last(f.x8->data(), ST::case_insensitive).size()),
    OP("BIG.split / replace (n-byte needle) ci", TGT_NONE, g_sink = f.BIG->split(f.x8->data(), (size_t)-1, ST::case_insensitive).size() + f.BIG->replace(f.x8->data(), "<>", ST::case_insensitive).size()),
    OP("BIG.starts_with / ends_with / compare_i (n-byte text)", TGT_NONE, g_sink = f.BIG->starts_with(f.x8->data(), ST::case_insensitive) + f.BIG->ends_with(f.x8->data(), ST::case_insensitive) + (size_t)f.BIG->compare_i(f.x8->data())),
    // floating-point renderings of 64+ characters (they need more than the formatter's in-object buffer)
    OP("format long floating-point renderings", TGT_NONE, g_sink = ST::format("{.70e}|{f}|{.100f}", 1e100, 1e300, 2.5).size() + ST::string::from_double(-1e300, 'f').size()),
    OP("SS << double with a long rendering", TGT_SS, *f.SS.obj << -1.7976931348623157e308),
    // formatted output into sinks that never allocate themselves (a FILE* over a fixed array, std streams over fixed arrays): every allocation
    // that fails is the library's own, and std::bad_alloc has to come out of ST::printf / ST::writef
    OP("ST::printf(FILE* over a fixed array)", TGT_NONE, static char area[1 << 16]; FILE *fp = fmemopen(area, sizeof area, "w"); if (fp) { setvbuf(fp, nullptr, _IONBF, 0);
        try { ST::printf(fp, "{}|{>40}|{x}|{_*<300}|{.3f}", *f.A.obj, *f.T.obj, 255, f.x8->data(), 2.5); } catch (...) { fclose(fp); throw; } fclose(fp); }),
    OP("ST::writef(char stream over a fixed array)", TGT_NONE, FixedBuf<char> sb; std::ostream os(&sb); ST::writef(os, "{}|{>40}|{x}|{_*<300}", *f.A.obj, *f.T.obj, 255, f.x8->data()); g_sink = sb.count()),
    OP("ST::writef(wchar_t stream over a fixed array)", TGT_NONE, FixedBuf<wchar_t> sb; std::wostream os(&sb); ST::writef(os, "{}|{>40}|{x}|{_*<300}", *f.A.obj, *f.T.obj, 255, f.x8->data()); g_sink = sb.count()),
    OP("ST::writef(char16_t stream over a fixed array)", TGT_NONE, FixedBuf<char16_t> sb; std::basic_ostream<char16_t> os(&sb); ST::writef(os, "{}|{>40}|{_*<300}", *f.A.obj, *f.T.obj, f.x8->data()); g_sink = sb.count()),
    OP("ST::writef(char32_t stream over a fixed array)", TGT_NONE, FixedBuf<char32_t> sb; std::basic_ostream<char32_t> os(&sb); ST::writef(os, "{}|{>40}|{_*<300}", *f.A.obj, *f.T.obj, f.x8->data()); g_sink = sb.count()),
    OP("CB.compare / == / view", TGT_NONE, g_sink = (size_t)f.CB.obj->compare(*f.CB2.obj) + (*f.CB.obj == *f.CB2.obj) + f.CB.obj->view().size()),
    OP("hex/base64 decode into caller buffer", TGT_NONE, char out[2048]; g_sink = (size_t)ST::hex_decode(*f.HEX, out, sizeof out) + (size_t)ST::base64_decode(*f.B64, out, sizeof out)),
};
const int kNOps = (int)(sizeof(kOps) / sizeof(kOps[0]));

// When this harness runs as the allocation-fault stage of ANOTHER property's check (environment VERIF_FAMILY=Cxx), only the operations
// whose names mention that property's functions take part.  Unset: the whole catalogue.
bool in_family(int op) {
    static const std::vector<bool> pick = [] {
        std::vector<bool> v((size_t)kNOps, true);
        static const struct { const char *id; const char *words[16]; } tab[] = {      // unused slots are null
            {"C01", {"utf", "latin", "wchar", "from_", "to_std", "u16string", "u32string", "wstring", "char16_t", "char32_t", "wchar_t"}},
            {"C02", {"utf", "latin", "wchar", "from_", "char16_t", "char32_t", "wchar_t"}}, {"C03", {"utf", "latin", "wchar", "from_", "to_std", "char16_t", "char32_t", "wchar_t"}},
            {"C04", {"T = ", "T +=", "copy", "substr", "left", "right", "trim", "upper", "lower", "replace", "split", "operator+", "to_utf", "fill"}},
            {"C05", {"CB", "U16", "U32", "W ", "W.", "W=", "buffer", "allocate"}}, {"C06", {"compare", "hash", "upper", "lower", "=="}},
            {"C07", {"find", "contains", "starts_with", "ends_with", "BIG."}}, {"C08", {"substr", "left", "right", "trim", "before", "after"}},
            {"C09", {"split", "replace", "tokenize"}}, {"C10", {"format", "printf", "writef"}}, {"C11", {"format", "printf", "writef"}},
            {"C12", {"from_int", "from_uint", "to_int", "unsigned long long", "format"}}, {"C13", {"double", "float", "format", "floating"}},
            {"C14", {"hex", "base64"}}, {"C15", {"hex", "base64"}}, {"C16", {"SS", "stream"}}, {"C17", {"printf", "writef", "format"}}, {"C18", {"decode", "latin", "+="}}};
        const char *e = getenv("VERIF_FAMILY");
        if (!e) return v;
        for (const auto &t : tab) if (!strcmp(e, t.id)) {
            for (int i = 0; i < kNOps; i++) { bool hit = false; for (const char *w : t.words) if (w && strstr(kOps[i].name, w)) hit = true; v[(size_t)i] = hit; }
        }
        return v;
    }();
    return pick[(size_t)op];
}
const size_t kSizes[] = {3, 15, 16, 40, 300, 1100};

struct Instance { int op; int size_idx; bool t_long, a_long, ss_heap; int ext; bool huge = false; };

const char *const kExt[8] = {"", "stream grown then truncate(0)", "stream grown then erased to 3 bytes", "fresh empty stream", "empty targets", "moved-from targets", "fresh stream + empty targets", "stream grown then truncate(0) + empty targets"};
std::string describe(const Instance &in, long N, long k) {
    return std::string("C19 op=") + kOps[in.op].name + " n=" + verif::unum(kSizes[in.size_idx]) + " target=" + (in.t_long ? "long" : "short") + " source=" + (in.a_long ? "long" : "short") +
           " stream=" + (in.ss_heap ? "heap" : "in-object") + (in.ext ? std::string(" pre-state=") + kExt[in.ext] : std::string()) + (in.huge ? " targets own 1 MiB blocks" : "") + " allocs=" + verif::num(N) + (k ? " fail k=" + verif::num(k) : "");
}


// ---- canary: results of a fixed set of ordinary calls, digested.  Computed once before any fault is injected in this process and
// again after every faulted run: an operation that failed half-way must not leave anything behind (per-thread scratch tables, caches,
// pending state) that changes what later, unrelated calls return.
uint64_t canary_digest() {
    uint64_t h = 1469598103934665603ull;
    auto mixb = [&](const void *p, size_t n) { const unsigned char *b = (const unsigned char *)p; for (size_t i = 0; i < n; i++) { h ^= b[i]; h *= 1099511628211ull; } h ^= n + 0x51; h *= 1099511628211ull; };
    auto mixs = [&](const ST::string &x) { mixb(x.c_str(), x.size()); };
    va::LibScope l;
    const ST::string subj = ST::string::from_validated(" ,ab-xyz;AB,a b\tmiddle, words;and-more  ;zyx-ba, ", 49);
    static const char *const sets[] = {" ", "a,", "ab", "xyz ,", ";- ", " ,;-abxyz", "AB", "\t\n"};
    for (const char *cs : sets) { mixs(subj.trim(cs)); mixs(subj.trim_left(cs)); mixs(subj.trim_right(cs)); for (const ST::string &t : subj.tokenize(cs)) mixs(t); }
    mixs(subj.trim()); for (const ST::string &t : subj.tokenize()) mixs(t);
    static const char *const needles[] = {"ab", "AB", "xyz", "a b", ";", "MIDDLE", "-"};
    for (const char *nd : needles) {
        long a = subj.find(nd), b = subj.find(nd, ST::case_insensitive), c = subj.find_last(nd), d = subj.find_last(nd, ST::case_insensitive);
        mixb(&a, sizeof a); mixb(&b, sizeof b); mixb(&c, sizeof c); mixb(&d, sizeof d);
        mixs(subj.replace(nd, "#", ST::case_insensitive)); mixs(subj.before_first(nd, ST::case_insensitive)); mixs(subj.after_last(nd));
        for (const ST::string &t : subj.split(nd, 3, ST::case_insensitive)) mixs(t);
    }
    mixs(subj.to_upper()); mixs(subj.to_lower());
    int ci = subj.compare_i("x"); size_t hs = ST::hash()(subj) ^ ST::hash_i()(subj); mixb(&ci, sizeof ci); mixb(&hs, sizeof hs);
    mixs(ST::format("{}|{+d}|{#x}|{#o}|{>8}|{_*<9}|{.3}|{c}|{f}|{.70e}|{b}", -12345, 77, 255u, 8, "right", "left", "precision", U'€', 1.5, 1e100, 5));
    mixs(ST::format_latin_1("{}|{>6}", "\xE9t\xE9", 42));
    mixs(ST::string::from_int(-987654321, 7)); mixs(ST::string::from_uint(0xFFFFFFFFFFFFFFFFull, 36, true)); mixs(ST::string::from_double(2.5e-7));
    { ST::string_stream ss; ss << subj << -1 << ' ' << 3.25 << u"é€" << U"\U0001F600"; ss.append_char('p', 300); mixb(ss.raw_buffer(), ss.size()); mixs(ss.to_string()); }
    { ST::conversion_result r; long v = ST::string("  -0x7fZ").to_long(r, 0); double dv = ST::string("12.5e3x").to_double(r); mixb(&v, sizeof v); mixb(&dv, sizeof dv); }
    { ST::utf16_buffer u = subj.to_utf16(); mixb(u.data(), u.size() * 2); ST::utf32_buffer w = ST::string("\xC3\xA9\xE2\x82\xAC\xF0\x9F\x98\x80z").to_utf32(); mixb(w.data(), w.size() * 4);
      mixs(ST::string::from_utf16(u)); mixs(ST::string::from_latin_1("caf\xE9", 4)); ST::char_buffer l1 = ST::string("caf\xC3\xA9").to_latin_1(); mixb(l1.data(), l1.size());
      mixs(ST::string("a\xFFz", 3, ST::substitute_invalid)); }
    { ST::string hx = ST::hex_encode("\x00\x9A\xFFzz", 5), b6 = ST::base64_encode("any carnal pleas", 16); mixs(hx); mixs(b6);
      ST::char_buffer d1 = ST::hex_decode(hx), d2 = ST::base64_decode(b6); mixb(d1.data(), d1.size()); mixb(d2.data(), d2.size()); }
    return h;
}
uint64_t g_canary = 0; bool g_have_canary = false;

// Runs one instance: the operation is run with its 1st, 2nd, 3rd ... allocation failing, each time on freshly built objects, until a run
// completes without the fault being reached - that last run is the fault-free one.  There is no separate counting pass: the very first
// execution of the operation in this process is already a faulted one, so allocations that happen only once per thread or process (a
// scratch buffer that is kept for later calls) are failed as well.  Blocks that are still allocated after everything was destroyed count
// as a leak only when the same run, repeated, leaves blocks behind AGAIN: storage that is acquired once and kept for reuse is not a leak.
// Returns "" or the violation (with the failing k in *kfail).
std::string run_instance(const Instance &in, long &N, long &pairs, long &nontrivial, long only_k, long *kfail) {
    const Op &op = kOps[in.op];
    if (!g_have_canary) { va::reset(); g_canary = canary_digest(); g_have_canary = true; if (canary_digest() != g_canary) return "the canary calls are not deterministic (harness)"; }
    N = 0;
    for (long k = only_k ? only_k : 1; k <= 400; k++) {
        bool fired = false, completed = false; std::string verdict;
        for (int attempt = 0; attempt < 2; attempt++) {       // attempt 1 only to tell a leak from storage kept for reuse
            va::reset();
            Fixture f; f.build(kSizes[in.size_idx], in.t_long, in.a_long, in.ss_heap, in.ext, in.huge);
            bool got_bad_alloc = false; std::string other;
            va::arm_fault(k);
            try { va::LibScope l; op.run(f); completed = true; }
            catch (const std::bad_alloc &) { got_bad_alloc = true; }
            catch (...) { other = verif::describe_current_exception(); }
            fired = va::fault_fired();
            va::arm_fault(0);
            if (kfail) *kfail = fired ? k : 0;
            const std::string tag = fired ? "allocation " + verif::num(k) + " failed: " : "without any fault: ";
            if (!other.empty()) { verdict = fired ? "allocation " + verif::num(k) + " failed and the caller received " + other + " instead of std::bad_alloc" : "the operation throws without any injected fault: " + other; break; }
            if (fired && !got_bad_alloc) { verdict = "allocation " + verif::num(k) + " failed but std::bad_alloc did not reach the caller (swallowed)"; break; }
            if (!fired && got_bad_alloc) { verdict = "the operation throws std::bad_alloc without any injected fault"; break; }
            std::string w;
            if (fired) { w = f.verify(op.target); if (w.empty()) w = f.reuse_and_destroy(); }
            else { f.destroy(); if (const char *e = va::error()) { w = e; va::clear_error(); } }
            const bool leak_only = !w.empty() && w.find("leak") != std::string::npos;
            if (w.empty() && !fired && va::live_blocks() != 0) { w = "the operation leaks " + verif::unum(va::live_blocks()) + " block(s)"; }
            const bool leftover = leak_only || (!fired && !w.empty() && w.find("leaks") != std::string::npos);
            if (!w.empty() && leftover && attempt == 0) continue;      // repeat the identical run: kept-for-reuse storage does not show up a second time
            if (!w.empty()) { verdict = tag + w + (leftover ? " (again when the same run was repeated)" : ""); break; }
            if (fired && canary_digest() != g_canary) {
                verdict = "allocation " + verif::num(k) + " failed; afterwards a fixed set of unrelated calls (trim/tokenize/find/replace/split/format/conversions/codecs on fresh objects) "
                          "returns results that differ from what it returned before any fault was injected: the failed operation left hidden state behind";
                break;
            }
            break;
        }
        if (fired) { pairs++; N = k; if (k > 1 || in.t_long) nontrivial++; }
        if (!verdict.empty()) return verdict;
        if (!fired || only_k) break;            // the fault was not reached: that was the complete, fault-free run
    }
    if (kfail) *kfail = 0;
    return std::string();
}

Instance decode(verif::Reader &r) {
    Instance in;
    in.op = (int)r.idx(kNOps); in.size_idx = (int)r.idx(6);
    uint8_t fl = r.u8(); in.t_long = fl & 1; in.a_long = fl & 2; in.ss_heap = fl & 4; in.ext = (fl >> 3) & 7; in.huge = (fl & 64) != 0 && in.ext == 0;
    return in;
}

}  // namespace

int verif_case(const uint8_t *data, size_t size, Case &c) {
    verif::Reader r(data, size, c);
    Instance in = decode(r);
    long only_k = (long)r.range(0, 40);      // 0 = every allocation of the instance
    if (only_k > 0 && !r.flag()) only_k = 0;
    long N = 0, pairs = 0, nt = 0, kf = 0;
    std::string why = run_instance(in, N, pairs, nt, only_k, &kf);
    va::reset();
    c.nontrivial = nt > 0;
    c.label(kOps[in.op].name);
    c.label(in.t_long ? "target-long" : "target-short");
    if (N >= 3) c.label("3+allocations");
    if (c.want_text) c.text = describe(in, N, only_k) + " -> " + verif::num(pairs) + " injected faults";
    if (!why.empty()) { if (c.want_text) c.text = describe(in, N, kf); return c.fail(why); }
    return verif::CASE_OK;
}

// the whole catalogue x size classes x storage modes x every allocation
long verif_enumerate(int shard, int nshards, int tier, verif::EnumReport &r) {
    long idx = 0;
    uint8_t cur[8];
    for (int op = 0; op < kNOps; op++)
        for (int sz = 0; sz < 6; sz++)
            for (int fl = 0; fl < 64; fl++, idx++) {
                if (idx % nshards != shard) continue;
                if (!in_family(op)) continue;
                if (!tier && (sz == 1 || sz == 5) && (fl & 4)) continue;      // quick tier: a thinner cross product
                if (!tier && (fl >> 3) && (sz == 0 || sz == 3) ) continue;   // quick tier: extra pre-states with 4 of the 6 size classes
                Instance in{op, sz, (fl & 1) != 0, (fl & 2) != 0, (fl & 4) != 0, fl >> 3};
                cur[0] = (uint8_t)op; cur[1] = (uint8_t)sz; cur[2] = (uint8_t)fl; cur[3] = 0; verif::set_current(cur, 4);
                long N = 0, pairs = 0, nt = 0, kf = 0;
                std::string why = run_instance(in, N, pairs, nt, 0, &kf);
                r.evaluations += pairs; r.nontrivial += nt;
                if (r.want_sample() && N >= 2 && (idx % 97) == 3) r.samples.push_back(describe(in, N, 0) + " -> each of the " + verif::num(N) + " allocations failed in turn");
                if (!why.empty()) { r.failure = why; r.failing_case = describe(in, N, kf); r.failing_bytes.assign(cur, cur + 4); return r.evaluations; }
            }
    // targets owning 1 MiB blocks: every operation that has a target, 2 argument sizes x source short/long
    for (int op = 0; op < kNOps; op++) {
        if (kOps[op].target == TGT_NONE || kOps[op].target == TGT_SS || !in_family(op)) continue;
        for (int sz = 2; sz <= 4; sz += 2) for (int al = 0; al < 2; al++, idx++) {
            if (idx % nshards != shard) continue;
            if (!tier && sz == 4 && al) continue;
            Instance in{op, sz, true, al != 0, false, 0, true};
            cur[0] = (uint8_t)op; cur[1] = (uint8_t)sz; cur[2] = (uint8_t)(64 | 1 | (al ? 2 : 0)); cur[3] = 0; verif::set_current(cur, 4);
            long N = 0, pairs = 0, nt = 0, kf = 0;
            std::string why = run_instance(in, N, pairs, nt, 0, &kf);
            r.evaluations += pairs; r.nontrivial += nt;
            if (!why.empty()) { r.failure = why; r.failing_case = describe(in, N, kf); r.failing_bytes.assign(cur, cur + 4); return r.evaluations; }
        }
    }
    va::reset();
    if (shard == 0) r.exhausted.push_back("every operation with a string or buffer target, the target owning a heap block of 1 MiB + 3 units, x every allocation");
    if (shard == 0) r.exhausted.push_back(std::string("every operation of the catalogue (") + verif::num(kNOps) + " operations) x 6 size classes x target/source/stream storage modes x 8 pre-states (stream grown then emptied / erased / fresh, targets empty / moved-from)" + (tier ? "" : " (thinned in the quick tier)") + " x every allocation it performs");
    return r.evaluations;
}

void verif_corpus(std::vector<std::vector<uint8_t>> &out) { out.push_back({3, 3, 3, 0}); out.push_back({42, 4, 7, 0}); }
