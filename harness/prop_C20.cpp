// C20: concurrent use needs no locking.  Generated thread programs under ThreadSanitizer;
// every thread's result digest must equal the digest of the same program run alone.
#include <string_theory/string>
#include <string_theory/string_stream>
#include <string_theory/format>
#include <string_theory/codecs>
#include <string_theory/stdio>
#include <string_theory/iostream>

#include <atomic>
#include <cstdlib>
#include <cstring>
#include <initializer_list>
#include <new>
#include <cmath>
#include <sstream>
#include <thread>

#include "common/verif.h"
#include "ref/ref_unicode.h"
#include "ref/ref_codecs.h"

using verif::Case;

const verif::Info verif_info = {
    "C20", 700,
    "a thread program set: 2..8 threads behind a spin barrier, a pool of 10 immutable ST::string / char, UTF-16 and UTF-32 buffers of every size class (empty, short, at the "
    "small-string limit, long; words, numbers, separators, multi-byte text) built before the threads start; each thread runs a generated list of 5..60 operations, 4 rounds: read-only "
    "calls on the shared objects (find/find_last/contains cs+ci, compare family, hashes, substr/left/right/trim, before/after, to_upper/lower, replace, split x3, tokenize (delimiter sets of 1..30 characters), searches with needles of 65..264 bytes in both case modes, "
    "to_utf16/32/wchar/latin_1/std strings, to_int/uint/double in several bases, iteration, buffer copies and comparisons, free conversion functions, hex/base64 encode+decode, "
    "ST::format / format_latin_1 / writef / printf with shared strings, integers and floating point incl. renderings of 64+ characters) interleaved with operations on thread-local "
    "strings, buffers, string_streams (append, <<, truncate, to_string) and from_int/from_double. Half of the cases run the same program in every thread. Oracle: ThreadSanitizer "
    "(any report = violation) and per-thread FNV digest of every returned value == digest of the same program executed alone before the threads start. Non-trivial: >= 2 threads "
    "execute >= 1 operation on the same shared object or the same formatting/codec/conversion function.",
    true, "exploration"};

// Per-thread allocation faults (the faulted round below): the n-th operator new / new[] called by code compiled into this translation
// unit - i.e. by string_theory, which is header-only - throws std::bad_alloc in THIS thread.  The ThreadSanitizer runtime defines the
// global operator new itself, so the calls are redirected at link time instead (-Wl,--wrap=_Znam,--wrap=_Znwm, see props/C20.py).
namespace faults { thread_local long countdown = 0; std::atomic<long> delivered{0}; }
extern "C" void *__real__Znam(size_t);
extern "C" void *__real__Znwm(size_t);
extern "C" void *__wrap__Znam(size_t n) { if (faults::countdown > 0 && --faults::countdown == 0) { faults::delivered.fetch_add(1, std::memory_order_relaxed); throw std::bad_alloc(); } return __real__Znam(n); }
extern "C" void *__wrap__Znwm(size_t n) { if (faults::countdown > 0 && --faults::countdown == 0) { faults::delivered.fetch_add(1, std::memory_order_relaxed); throw std::bad_alloc(); } return __real__Znwm(n); }

namespace {

struct Digest {
    uint64_t h = 1469598103934665603ull;
    void bytes(const void *p, size_t n) { const unsigned char *b = (const unsigned char *)p; for (size_t i = 0; i < n; i++) { h ^= b[i]; h *= 1099511628211ull; } h ^= n + 0x9e37; h *= 1099511628211ull; }
    void num(long long v) { bytes(&v, sizeof v); }
    void str(const ST::string &s) { bytes(s.c_str(), s.size()); }
    template <class T> void buf(const ST::buffer<T> &b) { bytes(b.data(), b.size() * sizeof(T)); }
    void dbl(double v) { if (v != v) num(-77); else bytes(&v, sizeof v); }
};

struct Pool {
    enum { N = 10 };
    ST::string s[N];
    ST::char_buffer cb[N];
    ST::utf16_buffer b16[N];
    ST::utf32_buffer b32[N];
    ST::string hex[N], b64[N];
};

struct Op { uint8_t kind, a, b, c; };
enum { NKINDS = 49 };

// When this harness runs as the concurrent-use stage of ANOTHER property's check (environment VERIF_FAMILY=Cxx), the programs are made
// of the operation kinds that exercise that property's functions only, so that a few dozen cases in a fresh process put every one of
// them under simultaneous first use.  Unset: all 48 kinds.
struct Family { int n = 0; uint8_t k[NKINDS]; };
const Family &family() {
    static const Family f = [] {
        Family r;
        static const struct { const char *id; int kinds[12]; } tab[] = {      // each list ends with -1
            {"C01", {14, 15, 16, 21, 22, 23, 45, 30, 36, 10, -1}}, {"C02", {14, 15, 21, 22, 23, 45, 36, 10, 12, -1}}, {"C03", {14, 15, 16, 21, 22, 23, 45, 36, 10, -1}},
            {"C04", {35, 36, 41, 42, 43, 6, 9, 14, -1}}, {"C05", {19, 20, 40, -1}}, {"C06", {4, 5, 43, 20, 9, 3, -1}}, {"C07", {0, 1, 2, 3, 46, -1}},
            {"C08", {6, 7, 8, 46, -1}}, {"C09", {10, 11, 12, 13, 44, 46, 47, -1}}, {"C10", {27, 28, 29, 30, 31, 32, 48, -1}}, {"C11", {27, 28, 29, 30, 31, 32, 48, -1}},
            {"C12", {17, 33, 27, 37, -1}}, {"C13", {18, 34, 27, 28, 29, 37, -1}}, {"C14", {24, 25, 26, -1}}, {"C15", {24, 25, 26, -1}}, {"C16", {37, 38, 39, 44, -1}},
            {"C17", {30, 31, 32, 27, 48, -1}}, {"C18", {26, 15, 36, 10, 12, 38, 42, -1}}};
        const char *e = getenv("VERIF_FAMILY");
        if (e) for (const auto &t : tab) if (!strcmp(e, t.id)) for (int i = 0; i < 12 && t.kinds[i] >= 0; i++) r.k[r.n++] = (uint8_t)t.kinds[i];
        return r;
    }();
    return f;
}
inline unsigned kind_of(const Op &op) { const Family &f = family(); return f.n ? (unsigned)f.k[op.kind % f.n] : (unsigned)op.kind % (unsigned)NKINDS; }

const char *const kNeedles[] = {"a", "ab", ",", " ", "", "the", "THE", "\xC3\xA9", "1", "0x", "aa", "xyz", ";", "-", "e", "\xE2\x82\xAC"};
const char *const kFormats[] = {"{}", "[{>12}]", "{<8}|{x}", "{_*>20}", "{}{}{}", "{&2} {&1}", "{.3}", "{#x} {+d} {o}", "{f}", "{.70f}", "{.66e}", "{e} {E}", "{+.2f}|{>30}", "{c}{c}", "{_0>300}", "{b}"};
const double kDoubles[] = {0.0, 1.5, -2.25, 3.14159265358979, 1e63, 1e100, -1e300, 1.7976931348623157e308, 5e-324, 123456789.125, 1e-7, -0.0};
const char kDelims[][48] = {" ", ",", ", ;", "\t\n ", "a", "-:", " ,;:-\t\n.!?()[]{}<>/|\\\"'", "0123456789abcdefABCDEF ,;", " ,;:-_=+*&^%$#@!~`|/?.<>()[]{}"};
enum { NDELIMS = 9 };

// an argument of a user-defined type whose format_type() calls ST::format again, `depth` levels deep (a formatter built from the library's own formatting)
struct Nest { int depth; int v; };
inline void format_type(const ST::format_spec &, ST::format_writer &out, const Nest &n) {
    ST::string in = n.depth > 0 ? ST::format("<{}:{}>", n.v, Nest{n.depth - 1, n.v + 1}) : ST::format("{x}", n.v);
    out.append(in.c_str(), in.size());
}

// One operation.  `rd` reads shared objects only through const references; locals are thread-private.
struct Local {
    ST::string acc;
    ST::string_stream ss;
    ST::char_buffer lb;
};

void run_op(const Pool &P, const Op &op, Local &L, Digest &D) {
    const ST::string &S = P.s[op.a % Pool::N];
    const ST::string &T = P.s[op.b % Pool::N];
    const ST::case_sensitivity_t cs = (op.c & 1) ? ST::case_insensitive : ST::case_sensitive;
    const char *needle = kNeedles[op.b % 16];
    switch (kind_of(op)) {
    case 0: D.num(S.find(needle, cs)); D.num(S.find(op.c % 20, needle, cs)); break;
    case 1: D.num(S.find_last(needle, cs)); D.num(S.find_last(op.c % 40, needle, cs)); break;
    case 2: D.num(S.find(T, cs)); D.num(S.contains(T, cs)); D.num(S.contains(needle[0] ? needle[0] : 'a', cs)); break;
    case 3: D.num(S.starts_with(T, cs)); D.num(S.ends_with(needle, cs)); D.num(S.starts_with(needle, cs)); break;
    case 4: { int r = S.compare(T, cs); D.num(r < 0 ? -1 : r > 0); D.num(S == T); D.num(S < T); D.num(S.compare_n(T, op.c % 20, cs) == 0); } break;
    case 5: D.num((long long)ST::hash()(S)); D.num((long long)ST::hash_i()(S)); D.num((long long)std::hash<ST::string>()(T)); break;
    case 6: D.str(S.substr((ST_ssize_t)(op.b % 24) - 4, op.c % 40)); D.str(S.left(op.c % 20)); D.str(S.right(op.b % 20)); break;
    case 7: D.str(S.trim()); D.str(S.trim_left(kDelims[op.b % NDELIMS])); D.str(S.trim_right(kDelims[op.c % NDELIMS])); break;
    case 8: D.str(S.before_first(needle, cs)); D.str(S.after_first(needle, cs)); D.str(S.before_last(T, cs)); D.str(S.after_last(needle[0] ? needle[0] : ',', cs)); break;
    case 9: D.str(S.to_upper()); D.str(S.to_lower()); break;
    case 10: try { D.str(S.replace(needle, kNeedles[op.c % 16], cs)); } catch (const ST::unicode_error &) { D.num(-4); } break;
    case 11: { std::vector<ST::string> v = S.split(needle[0] ? needle[0] : ',', op.c % 5 ? (size_t)-1 : 2, cs); D.num((long long)v.size()); for (auto &x : v) D.str(x); } break;
    case 12: { std::vector<ST::string> v; try { v = S.split(needle, (size_t)-1, cs); } catch (const ST::unicode_error &) { D.num(-4); } D.num((long long)v.size()); for (auto &x : v) D.str(x); } break;
    case 13: { std::vector<ST::string> v = S.tokenize(kDelims[op.b % NDELIMS]); D.num((long long)v.size()); for (auto &x : v) D.str(x); } break;
    case 14: D.buf(S.to_utf16()); D.buf(S.to_utf32()); D.buf(S.to_wchar()); break;
    case 15: try { D.buf(S.to_latin_1((op.c & 1) != 0)); } catch (const ST::unicode_error &) { D.num(-4); } D.buf(S.to_utf8()); break;
    case 16: { std::string a = S.to_std_string(); D.bytes(a.data(), a.size()); std::u16string b = S.to_std_u16string(); D.bytes(b.data(), b.size() * 2); std::wstring w = S.to_std_wstring(); D.bytes(w.data(), w.size() * sizeof(wchar_t)); } break;
    case 17: { ST::conversion_result r; int base = (op.c % 4 == 0) ? 0 : (op.c % 4 == 1) ? 10 : (op.c % 4 == 2) ? 16 : 2 + op.b % 35; D.num(S.to_int(r, base)); D.num(r.ok()); D.num(r.full_match()); D.num((long long)S.to_ulong_long(base)); D.num(S.to_short(base)); } break;
    case 18: { ST::conversion_result r; D.dbl(S.to_double(r)); D.num(r.ok()); D.dbl(S.to_float()); D.num(S.to_bool()); } break;
    case 19: { long long sum = 0; for (char ch : P.cb[op.a % Pool::N]) sum = sum * 31 + (unsigned char)ch; D.num(sum); const ST::utf16_buffer &b = P.b16[op.b % Pool::N]; for (size_t i = 0; i < b.size(); i++) sum += b.at(i); D.num(sum); if (b.size()) { D.num(b.front()); D.num(b.back()); } } break;
    case 20: { ST::char_buffer copy = P.cb[op.a % Pool::N]; D.buf(copy); ST::utf32_buffer c32(P.b32[op.b % Pool::N]); D.buf(c32); D.num(copy == P.cb[op.b % Pool::N]); D.num(P.cb[op.a % Pool::N].compare(P.cb[op.b % Pool::N])); } break;
    case 21: { const ST::char_buffer &b = P.cb[op.a % Pool::N]; D.buf(ST::utf8_to_utf16(b.data(), b.size(), ST::substitute_invalid)); D.buf(ST::utf8_to_utf32(b)); D.buf(ST::utf8_to_latin_1(b.data(), b.size(), ST::substitute_invalid, true)); } break;
    case 22: { const ST::utf16_buffer &b = P.b16[op.a % Pool::N]; D.buf(ST::utf16_to_utf8(b)); D.buf(ST::utf16_to_utf32(b.data(), b.size(), ST::check_validity)); const ST::utf32_buffer &c = P.b32[op.b % Pool::N]; D.buf(ST::utf32_to_utf8(c)); D.buf(ST::utf32_to_utf16(c)); } break;
    case 23: { ST::string a = ST::string::from_utf16(P.b16[op.a % Pool::N]); D.str(a); ST::string b = ST::string::from_utf32(P.b32[op.b % Pool::N].data(), P.b32[op.b % Pool::N].size()); D.str(b); D.str(ST::string::from_latin_1(P.cb[op.c % Pool::N].data(), P.cb[op.c % Pool::N].size())); } break;
    case 24: { const ST::char_buffer &b = P.cb[op.a % Pool::N]; ST::string h = ST::hex_encode(b.data(), b.size()); D.str(h); ST::char_buffer back = ST::hex_decode(h); D.buf(back); } break;
    case 25: { const ST::char_buffer &b = P.cb[op.a % Pool::N]; ST::string e = ST::base64_encode(b); D.str(e); ST::char_buffer back = ST::base64_decode(e); D.buf(back); } break;
    case 26: try { D.buf(ST::hex_decode(P.hex[op.a % Pool::N])); D.buf(ST::base64_decode(P.b64[op.b % Pool::N])); char out[64]; D.num(ST::base64_decode(P.b64[op.a % Pool::N], out, sizeof out)); D.num(ST::hex_decode(S, nullptr, 0)); } catch (const ST::codec_error &) { D.num(-5); } break;
    case 27: case 28: case 29: {
        const char *f = kFormats[op.c % 16];
        double d = kDoubles[op.b % 12];
        try {
            switch (op.c % 16) {
            case 0: case 1: case 3: case 6: D.str(ST::format(f, S)); break;
            case 2: D.str(ST::format(f, S, (unsigned)op.b * 2654435761u)); break;
            case 4: D.str(ST::format(f, S, (int)op.b - 100, T)); break;
            case 5: D.str(ST::format(f, T, S)); break;
            case 7: D.str(ST::format(f, (unsigned long)op.b << 20, (int)op.a, (short)(op.b * 100))); break;
            case 8: case 9: case 10: D.str(ST::format(f, d)); break;
            case 11: D.str(ST::format(f, d, (float)d)); break;
            case 12: D.str(ST::format(f, d, S)); break;
            case 13: D.str(ST::format(f, (char32_t)(0x20AC + op.b), (wchar_t)('A' + op.b % 26))); break;
            case 14: D.str(ST::format(f, (int)op.b)); break;
            default: D.str(ST::format(f, (long long)op.b << (op.a % 50))); break;
            }
        } catch (const ST::unicode_error &) { D.num(-4); }
    } break;
    case 30: D.str(ST::format_latin_1("{}|{>10}|{x}", P.cb[op.a % Pool::N].c_str(), "\xE9t\xE9", (int)op.b)); break;
    case 31: { std::ostringstream os; ST::writef(os, "{} {<20} {.3f}", S, T, kDoubles[op.c % 12]); os << ' ' << S; std::string r = os.str(); D.bytes(r.data(), r.size()); } break;
    case 32: { char *mb = nullptr; size_t ms = 0; FILE *fp = open_memstream(&mb, &ms); if (fp) { static const char *const pf[] = {"{}:{_->15}:{e}", "{_*>9}:{_#<40}:{f}", "{_.>6}:{_=>33}:{E}", "{>7}:{_~<21}:{_0>12}"}; ST::printf(fp, pf[op.a % 4], (int)op.b, S, kDoubles[op.c % 12]); fclose(fp); D.bytes(mb, ms); free(mb); } } break;
    case 33: D.str(ST::string::from_int((int)op.b * 7919 - 500000, 2 + op.c % 35, (op.a & 1) != 0)); D.str(ST::string::from_uint(0xFFFFFFFFFFFFFFFFull >> (op.b % 64), 2 + op.a % 35)); break;
    case 34: D.str(ST::string::from_double(kDoubles[op.b % 12], "gfeE"[op.c % 4])); D.str(ST::string::from_float((float)kDoubles[op.a % 12])); D.str(ST::string::from_bool((op.c & 1) != 0)); break;
    case 35: L.acc += S; L.acc += needle; if (L.acc.size() > 600) L.acc = L.acc.right(50); D.str(L.acc); break;
    case 36: L.acc = S; L.acc += (char32_t)(0xE9 + op.b); L.acc = L.acc + T + "!"; D.str(L.acc); D.num(L.acc == S); break;
    case 37: L.ss << S << ' ' << (int)op.b << ' ' << kDoubles[op.c % 12] << "|"; if (L.ss.size() > 2000) L.ss.truncate(100); D.bytes(L.ss.raw_buffer(), L.ss.size()); break;
    case 38: L.ss.append(P.cb[op.a % Pool::N].data(), P.cb[op.a % Pool::N].size()); L.ss.append_char('.', op.b % 40); L.ss.erase(op.c % 8); try { D.str(L.ss.to_string()); } catch (const ST::unicode_error &) { D.num(-4); } if (L.ss.size() > 2000) L.ss.truncate(0); break;
    case 39: { ST::string_stream moved(std::move(L.ss)); moved << T; D.bytes(moved.raw_buffer(), moved.size()); L.ss << "x" << (unsigned long long)op.b; D.num((long long)L.ss.size()); } break;
    case 40: L.lb = P.cb[op.a % Pool::N]; L.lb.allocate(op.b % 40, (char)('a' + op.c % 26)); D.buf(L.lb); { ST::char_buffer m(std::move(L.lb)); D.buf(m); D.num((long long)L.lb.size()); } break;
    case 41: { ST::string c1(S); ST::string c2 = T; c1 = c2; c2 = std::move(c1); D.str(c2); ST::string lit = ST_LITERAL("literal text of some length!"); D.num(lit.compare(S)); } break;
    case 42: try { D.str(S.fill(op.b % 30, needle[0] ? needle[0] : 'z')); } catch (const ST::unicode_error &) { D.num(-4); } D.str(ST::string::fill(op.c % 50, 'q')); break;
    case 43: { ST::string u = ST::string::from_std_string(S.to_std_string()); D.num(u == S); D.num(ST::less_i()(S, T)); D.num(ST::equal_i()(S, T)); D.num(S.compare_i(T) == 0); } break;
    case 44: { std::vector<ST::string> v = S.split(' '); ST::string_stream j; for (auto &x : v) j << x << '+'; D.bytes(j.raw_buffer(), j.size()); } break;
    case 46: {   // needles longer than 64 / 256 bytes cut out of (or unrelated to) a long shared string, both case modes
        const ST::string &L = P.s[op.a % 3];               // slots 0..2 always hold long multi-token strings
        size_t nl = 65 + op.b % 200; if (nl > L.size()) nl = L.size();
        ST::string needle2 = (op.c & 2) ? L.right(nl).to_upper() : L.left(nl);
        D.num(L.find(needle2, cs)); D.num(L.find_last(needle2, cs)); D.num(T.contains(needle2, cs)); D.str(L.after_first(needle2, cs)); D.str(L.replace(needle2, "-", cs));
        std::vector<ST::string> v = L.split(needle2, 4, cs); D.num((long long)v.size());
    } break;
    case 48: D.str(ST::format("{}|{>6}|{}", Nest{30 + op.b % 30, (int)op.c}, (int)op.a, Nest{1, 7})); break;
    case 47: { std::vector<ST::string> v = S.tokenize(kDelims[6 + op.b % 3]); D.num((long long)v.size()); for (auto &x : v) D.str(x); v = T.tokenize(kDelims[6 + op.c % 3]); D.num((long long)v.size()); } break;
    default: { ST::utf16_buffer w = S.to_utf16(); ST::string back(w); D.num(back == S); ST::wchar_buffer ww = T.to_wchar(); ST::string b2 = ST::string::from_wchar(ww.data(), ww.size()); D.num(b2 == T); } break;
    }
}

uint64_t run_program(const Pool &P, const std::vector<Op> &ops) {
    Digest D; Local L;
    for (const Op &op : ops) {
        try { run_op(P, op, L, D); }
        catch (const verif::assertion_failure &) { D.num(-90); }
        catch (const std::exception &) { D.num(-91); }
        catch (...) { D.num(-92); }
    }
    return D.h;
}

// The same program with an allocation failure injected into every operation (the k-th allocation of the operation throws, k = 1..6 by the
// operation's bytes).  Results are not compared - which allocation is the k-th may legitimately depend on what other threads do - the round
// exists so that the library's failure paths run concurrently with fault-free work in the other threads (ThreadSanitizer / a crash decide).
void run_program_faulted(const Pool &P, const std::vector<Op> &ops) {
    Digest D; Local L;
    size_t i = 0;
    for (const Op &op : ops) {
        faults::countdown = 1 + (long)((op.a * 7u + op.b + i++) % 6);
        try { run_op(P, op, L, D); }
        catch (...) { }
        faults::countdown = 0;
    }
}

void build_pool(verif::Reader &r, Pool &P) {
    static const char *const words[] = {"the", "quick", "brown", "fox", "THE", "Lazy", "dog", "aa", "aab", "abab", "\xC3\xA9t\xC3\xA9", "\xE2\x82\xAC", "\xF0\x9F\x98\x80", "12345", "-77", "0x7fff", "3.14159e10", "1e-5", "true", "QUJD", "4142"};
    static const char *const seps[] = {" ", ",", ", ", ";", "-", "  ", ":", ""};
    static const uint16_t targets[] = {0, 1, 3, 14, 15, 16, 17, 40, 120, 300};
    for (int i = 0; i < Pool::N; i++) {
        size_t target = targets[r.idx(10)] + (size_t)(i == 0 ? 0 : 0);
        if (i < 3 && target < 320) target = 320 + i * 37;    // a few long, multi-token strings are always present (needles of 65..264 bytes are cut out of them)
        std::string b;
        unsigned wsel = r.u8(), ssel = r.u8();
        while (b.size() < target) { b += words[(wsel + b.size() * 7 + i) % 21]; if (b.size() < target) b += seps[(ssel + b.size()) % 8]; }
        // cut at a character boundary
        if (b.size() > target) { size_t cut = target; while (cut > 0 && ((unsigned char)b[cut] & 0xC0) == 0x80) cut--; b.resize(cut); }
        P.s[i] = ST::string::from_validated(b.data(), b.size());
        P.cb[i] = ST::char_buffer(b.data(), b.size());
        ref::Units u; for (unsigned char ch : b) u.push_back(ch);
        std::vector<uint32_t> sc; for (const ref::Item &it : ref::decode(ref::UTF8, u)) sc.push_back(it.value);
        ref::Units u16 = ref::encode(ref::UTF16, sc);
        std::u16string s16; for (uint32_t v : u16) s16.push_back((char16_t)v);
        std::u32string s32(sc.begin(), sc.end());
        P.b16[i] = ST::utf16_buffer(s16.data(), s16.size());
        P.b32[i] = ST::utf32_buffer(s32.data(), s32.size());
        // encoded with the reference codecs: nothing the threads will use may be warmed up on the main thread first
        { std::string h = ref::hex_encode((const uint8_t *)b.data(), b.size()), e = ref::b64_encode((const uint8_t *)b.data(), b.size());
          P.hex[i] = ST::string::from_validated(h.data(), h.size()); P.b64[i] = ST::string::from_validated(e.data(), e.size()); }
    }
}

}  // namespace

int verif_case(const uint8_t *data, size_t size, Case &c) {
    verif::Reader r(data, size, c);
    const unsigned nthreads = 2 + (unsigned)r.range(0, 6);
    const bool same = r.flag();
    Pool *P = new Pool();
    build_pool(r, *P);
    const unsigned nprog = same ? 1 : nthreads;
    std::vector<std::vector<Op>> progs(nprog);
    for (unsigned p = 0; p < nprog; p++) {
        size_t nops = 5 + r.range(0, same ? 55 : 25);
        for (size_t i = 0; i < nops; i++) { Op op; op.kind = r.u8(); op.a = r.u8(); op.b = r.u8(); op.c = r.u8(); progs[p].push_back(op); }
    }
    if (same) c.label("same-program-in-all-threads"); else c.label("different-programs");
    c.label(nthreads <= 2 ? "threads:2" : nthreads <= 4 ? "threads:3-4" : "threads:5-8");
    // shared-use classification: some operation kind (hence the same library function) occurs in >= 2 threads
    bool shared_use = same;
    if (!same) { unsigned seen[NKINDS] = {0}; for (unsigned p = 0; p < nprog; p++) { bool mine[NKINDS] = {false}; for (const Op &op : progs[p]) mine[kind_of(op)] = true; for (int k = 0; k < NKINDS; k++) if (mine[k] && ++seen[k] >= 2) shared_use = true; } }
    c.nontrivial = shared_use;
    bool has_fmt = false, has_longfloat = false, has_tok = false, has_conv = false;
    for (auto &pr : progs) for (const Op &op : pr) { unsigned k = kind_of(op); if (k >= 27 && k <= 32) has_fmt = true; if (k >= 27 && k <= 29 && (op.c % 16 == 8 || op.c % 16 == 9 || op.c % 16 == 10) ) has_longfloat = true; if (k == 13 || k == 11 || k == 12) has_tok = true; if (k == 14 || (k >= 21 && k <= 23)) has_conv = true; }
    if (has_fmt) c.label("uses:format"); if (has_longfloat) c.label("uses:float-format"); if (has_tok) c.label("uses:split/tokenize"); if (has_conv) c.label("uses:conversions");
    if (c.want_text) {
        c.text = "C20 threads=" + std::to_string(nthreads) + (same ? " same-program" : " different-programs") + " ops=[";
        for (size_t i = 0; i < progs[0].size() && i < 12; i++) { if (i) c.text += ","; c.text += std::to_string(kind_of(progs[0][i])); }
        c.text += progs[0].size() > 12 ? ",..] (" + std::to_string(progs[0].size()) + " ops in thread 0)" : "]";
        c.text += " pool sizes=["; for (int i = 0; i < Pool::N; i++) { if (i) c.text += ","; c.text += std::to_string(P->s[i].size()); } c.text += "]";
    }
    // together (first: see below)
    enum { ROUNDS = 5, FAULT_ROUND = 3 };      // rounds 0..2 plain, round 3 with injected allocation failures in the odd threads, round 4 plain again
    std::atomic<unsigned> arrived[ROUNDS];
    for (auto &a : arrived) a.store(0);
    std::vector<uint64_t> got((size_t)nthreads * ROUNDS, 0);
    const long faults_before = faults::delivered.load();
    std::vector<std::thread> th;
    const Pool &CP = *P;
    for (unsigned t = 0; t < nthreads; t++)
        th.emplace_back([&, t] {
            const std::vector<Op> &prog = progs[same ? 0 : t];
            for (int round = 0; round < ROUNDS; round++) {
                arrived[round].fetch_add(1, std::memory_order_relaxed);      // relaxed: the barrier must not create happens-before edges that would hide a race
                while (arrived[round].load(std::memory_order_relaxed) < nthreads) std::this_thread::yield();
                if (round == FAULT_ROUND && (t & 1)) { run_program_faulted(CP, prog); got[(size_t)t * ROUNDS + round] = 0; }
                else got[(size_t)t * ROUNDS + round] = run_program(CP, prog);
            }
        });
    for (auto &x : th) x.join();
    if (faults::delivered.load() > faults_before) c.label("faulted-round:allocation-failures-delivered");
    // alone - AFTER the threads: whatever the library builds on first use (tables, caches) is first touched by the concurrent
    // phase, in every process and for every operation kind, so ThreadSanitizer sees unsynchronised first-use initialisation
    std::vector<uint64_t> expect(nprog);
    for (unsigned p = 0; p < nprog; p++) expect[p] = run_program(*P, progs[p]);
    for (unsigned p = 0; p < nprog; p++) if (run_program(*P, progs[p]) != expect[p]) { delete P; return c.fail("a program run twice alone gives two different digests (harness not deterministic)"); }
    std::string why;
    for (unsigned t = 0; t < nthreads && why.empty(); t++)
        for (int round = 0; round < ROUNDS; round++)
            if (!(round == FAULT_ROUND && (t & 1)) && got[(size_t)t * ROUNDS + round] != expect[same ? 0 : t]) { why = "thread " + std::to_string(t) + " round " + std::to_string(round) + " obtained results that differ from the same program run alone (digest mismatch)"; break; }
    // the shared objects must be unchanged
    delete P;
    if (!why.empty()) return c.fail(why);
    return verif::CASE_OK;
}

// Cold-start storm: many fresh processes (fork; the parent never calls the library), each running ONE same-program case with 8 threads whose
// first operations coincide, every operation kind taking its turn as the first one.  State that is built on first use with atomics only -
// invisible to the race detector - but in more than one step (a table first cleared, then filled; a flag published before the data) gives
// wrong results only to a thread that arrives inside that window of a few hundred nanoseconds: the digest comparison finds it, and only
// a fresh process can (after the first use the window is gone for the life of the process).
#include <signal.h>
#include <sys/prctl.h>
#include <sys/wait.h>
#include <unistd.h>
std::vector<uint8_t> storm_case(unsigned i) {
    const Family &f = family();
    const unsigned nk = f.n ? (unsigned)f.n : (unsigned)NKINDS;
    std::vector<uint8_t> b;
    b.push_back(6); b.push_back(1);                                        // 8 threads, the same program in all of them
    for (int p = 0; p < 30; p++) b.push_back((uint8_t)((i * 7 + p * 13 + (i >> 3)) & 0xFF));   // the pool
    const unsigned nops = nk < 12 ? 12 : nk;
    b.push_back((uint8_t)(nops - 5));
    for (unsigned j = 0; j < nops; j++) { b.push_back((uint8_t)((i + j) % nk)); b.push_back((uint8_t)(i * 3 + j)); b.push_back((uint8_t)(i * 5 + j * 11 + (i >> 4))); b.push_back((uint8_t)(i + j * 3 + (i >> 2))); }
    return b;
}
long verif_enumerate(int shard, int nshards, int tier, verif::EnumReport &r) {
    long inconclusive = 0;
    const unsigned total = (getenv("VERIF_FAMILY") ? 1 : 2) * (tier ? 3200u : 800u);      // as a stage of another property's check: half as many
    for (unsigned i = (unsigned)shard; i < total; i += (unsigned)nshards) {
        std::vector<uint8_t> bytes = storm_case(i);
        verif::set_current(bytes.data(), bytes.size());
        int fds[2]; if (pipe(fds) != 0) break;
        pid_t pid = fork();
        if (pid < 0) { close(fds[0]); close(fds[1]); break; }
        if (pid == 0) {
            close(fds[0]);
            prctl(PR_SET_PDEATHSIG, SIGKILL);      // never outlive the enumerating process
            alarm(120);                             // a child that is still alive after two minutes of wall clock (cases take milliseconds) is stuck - e.g. the race
                                                    // reporter waiting for threads that spin at the barrier; it is ended and counted as inconclusive, never as a verdict
            Case c; int v = verif::CASE_OK;
            try { v = verif_case(bytes.data(), bytes.size(), c); } catch (...) { v = verif::CASE_VIOLATION; c.failure = "exception escaped the case"; }
            if (v == verif::CASE_VIOLATION) { ssize_t w = write(fds[1], c.failure.data(), c.failure.size()); (void)w; }
            close(fds[1]);
            _exit(v == verif::CASE_VIOLATION ? 1 : 0);
        }
        close(fds[1]);
        std::string why; char buf[512]; ssize_t n;
        while ((n = read(fds[0], buf, sizeof buf)) > 0) why.append(buf, (size_t)n);
        close(fds[0]);
        int st = 0; waitpid(pid, &st, 0);
        r.evaluations++; r.nontrivial++;
        if (WIFSIGNALED(st) && WTERMSIG(st) == SIGALRM) { inconclusive++; continue; }
        const bool bad = !(WIFEXITED(st) && WEXITSTATUS(st) == 0);
        if (bad) {
            if (why.empty()) why = WIFSIGNALED(st) ? "the fresh process was killed by signal " + std::to_string(WTERMSIG(st)) : "the fresh process ended with status " + std::to_string(WEXITSTATUS(st)) + " (66 = ThreadSanitizer report, see its output above)";
            r.failure = "cold start (first use of the library in a fresh process by 8 threads at once): " + why;
            r.failing_case = "C20 cold-start case " + std::to_string(i);
            r.failing_bytes = bytes;
            return r.evaluations;
        }
    }
    if (inconclusive) r.samples.push_back("cold-start storm: " + std::to_string(inconclusive) + " fresh process(es) were ended after 120 s of wall clock without a result (inconclusive, not counted)");
    if (shard == 0) r.exhausted.push_back(std::string("cold-start storm: ") + std::to_string(total) + " fresh processes, 8 threads, every operation kind taking its turn as the first operation");
    return r.evaluations;
}

void verif_corpus(std::vector<std::vector<uint8_t>> &out) { out.push_back({3, 1, 5, 1, 2}); }
