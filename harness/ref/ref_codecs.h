// Reference hex / base64 (RFC 4648, standard alphabet, '=' padding), written
// arithmetically from the RFC - no lookup tables, no string_theory header.
#pragma once
#include <cstdint>
#include <string>
#include <vector>

namespace ref {

inline char hex_digit(unsigned d) { return d < 10 ? char('0' + d) : char('a' + (d - 10)); }
inline std::string hex_encode(const uint8_t *p, size_t n) {
    std::string o; o.reserve(n * 2);
    for (size_t i = 0; i < n; i++) { o += hex_digit(p[i] / 16); o += hex_digit(p[i] % 16); }
    return o;
}
inline int hex_value(unsigned char c) {
    if (c >= '0' && c <= '9') return c - '0';
    if (c >= 'a' && c <= 'f') return c - 'a' + 10;
    if (c >= 'A' && c <= 'F') return c - 'A' + 10;
    return -1;
}
// acceptance predicate of the statement: even length, only hex digits of either case
inline bool hex_valid(const std::string &s) {
    if (s.size() % 2) return false;
    for (unsigned char c : s) if (hex_value(c) < 0) return false;
    return true;
}
inline std::vector<uint8_t> hex_decode(const std::string &s) {
    std::vector<uint8_t> o;
    for (size_t i = 0; i + 1 < s.size(); i += 2) o.push_back((uint8_t)(hex_value(s[i]) * 16 + hex_value(s[i + 1])));
    return o;
}

inline char b64_char(unsigned v) {
    if (v < 26) return char('A' + v);
    if (v < 52) return char('a' + (v - 26));
    if (v < 62) return char('0' + (v - 52));
    return v == 62 ? '+' : '/';
}
inline int b64_value(unsigned char c) {
    if (c >= 'A' && c <= 'Z') return c - 'A';
    if (c >= 'a' && c <= 'z') return c - 'a' + 26;
    if (c >= '0' && c <= '9') return c - '0' + 52;
    if (c == '+') return 62;
    if (c == '/') return 63;
    return -1;
}
inline std::string b64_encode(const uint8_t *p, size_t n) {
    std::string o;
    size_t i = 0;
    for (; i + 3 <= n; i += 3) {
        uint32_t v = (uint32_t)p[i] * 65536u + (uint32_t)p[i + 1] * 256u + p[i + 2];
        o += b64_char(v / 262144u); o += b64_char((v / 4096u) % 64u); o += b64_char((v / 64u) % 64u); o += b64_char(v % 64u);
    }
    if (n - i == 1) {
        uint32_t v = (uint32_t)p[i] * 65536u;
        o += b64_char(v / 262144u); o += b64_char((v / 4096u) % 64u); o += "==";
    } else if (n - i == 2) {
        uint32_t v = (uint32_t)p[i] * 65536u + (uint32_t)p[i + 1] * 256u;
        o += b64_char(v / 262144u); o += b64_char((v / 4096u) % 64u); o += b64_char((v / 64u) % 64u); o += '=';
    }
    return o;
}
// acceptance predicate of the statement: length multiple of four, every character in the
// alphabet, '=' only as the last or the last two characters
inline bool b64_valid(const std::string &s) {
    if (s.size() % 4) return false;
    size_t n = s.size();
    size_t pad = 0;
    if (n && s[n - 1] == '=') { pad = 1; if (s[n - 2] == '=') pad = 2; }
    for (size_t i = 0; i < n - pad; i++) if (b64_value((unsigned char)s[i]) < 0) return false;
    return true;
}
// the decoded length "implied by the input's length and padding"; -1 for a bad length
inline long b64_implied_size(const std::string &s) {
    if (s.size() % 4) return -1;
    long r = (long)(s.size() / 4) * 3;
    if (s.size() > 0 && s[s.size() - 1] == '=') r--;
    if (s.size() > 1 && s[s.size() - 2] == '=') r--;
    return r;
}
inline std::vector<uint8_t> b64_decode(const std::string &s) {   // precondition: b64_valid(s)
    std::vector<uint8_t> o;
    for (size_t i = 0; i + 4 <= s.size(); i += 4) {
        int a = b64_value(s[i]), b = b64_value(s[i + 1]);
        int c = s[i + 2] == '=' ? -1 : b64_value(s[i + 2]);
        int d = s[i + 3] == '=' ? -1 : b64_value(s[i + 3]);
        uint32_t v = (uint32_t)a * 262144u + (uint32_t)b * 4096u + (uint32_t)(c < 0 ? 0 : c) * 64u + (uint32_t)(d < 0 ? 0 : d);
        o.push_back((uint8_t)(v / 65536u));
        if (c >= 0) o.push_back((uint8_t)((v / 256u) % 256u));
        if (d >= 0) o.push_back((uint8_t)(v % 256u));
    }
    return o;
}


// --- additions for C15 (nothing above is changed) ---------------------------------
// hex: the decoded length "implied by the input's length": size/2, -1 for an odd length
inline long hex_implied_size(const std::string &s) { return (s.size() % 2) ? -1 : (long)(s.size() / 2); }
// why a text is outside the statement's acceptance predicate (classification labels only; the verdict
// always comes from hex_valid / b64_valid): 0 valid, 1 bad length, 2 '=' somewhere else than the last one or two
// characters (and no other foreign character), 3 a character outside alphabet+'=' in the final group,
// 4 such a character in a non-final group
inline int b64_reject_class(const std::string &s) {
    if (b64_valid(s)) return 0;
    if (s.size() % 4) return 1;
    size_t n = s.size();
    for (size_t i = 0; i < n; i++) {
        unsigned char c = (unsigned char)s[i];
        if (c != '=' && b64_value(c) < 0) return i + 4 >= n ? 3 : 4;
    }
    return 2;
}

}  // namespace ref
