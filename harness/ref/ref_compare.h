// Reference order for C06, written from the property text - no string_theory header.
//   case-sensitive: lexicographic order of the units taken as unsigned values, embedded NULs are ordinary units,
//                   a proper prefix sorts first;
//   case-insensitive: only the equivalence is fixed - equality after folding ASCII A-Z to a-z;
//   compare_n: the same comparison on the first n units of each operand;
//   a `const T *` operand is what such an overload can see: the units before the first NUL.
#pragma once
#include <cstddef>
#include <cstdint>
#include <string>
#include <type_traits>
#include <vector>

namespace ref {

inline int sgn(long long v) { return v < 0 ? -1 : v > 0 ? 1 : 0; }

template <class T> inline uint32_t ukey(T v) { return (uint32_t)(typename std::make_unsigned<T>::type)v; }

// Reads exactly min(la, lb) units of each operand (the lengths themselves may be far larger than the storage).
template <class T> inline int cmp(const T *a, size_t la, const T *b, size_t lb) {
    size_t m = la < lb ? la : lb;
    for (size_t i = 0; i < m; i++) {
        uint32_t x = ukey(a[i]), y = ukey(b[i]);
        if (x != y) return x < y ? -1 : 1;
    }
    return la < lb ? -1 : la > lb ? 1 : 0;
}
template <class T> inline int cmp_n(const T *a, size_t la, const T *b, size_t lb, size_t n) {
    return cmp(a, la < n ? la : n, b, lb < n ? lb : n);
}
template <class T> inline size_t zlen(const T *p, size_t n) {     // length seen through a NUL-terminated pointer
    for (size_t i = 0; i < n; i++) if (p[i] == 0) return i;
    return n;
}
template <class T> inline size_t common_prefix(const T *a, size_t la, const T *b, size_t lb) {
    size_t m = la < lb ? la : lb, i = 0;
    while (i < m && a[i] == b[i]) i++;
    return i;
}

inline unsigned char fold(unsigned char c) { return (c >= 'A' && c <= 'Z') ? (unsigned char)(c + 32) : c; }
inline unsigned char unfold(unsigned char c) { return (c >= 'a' && c <= 'z') ? (unsigned char)(c - 32) : c; }
// equality after folding; like cmp() it touches only min(la, lb) units
inline bool fold_equal(const char *a, size_t la, const char *b, size_t lb) {
    if (la != lb) return false;
    for (size_t i = 0; i < la; i++) if (fold((unsigned char)a[i]) != fold((unsigned char)b[i])) return false;
    return true;
}
inline bool fold_equal_n(const char *a, size_t la, const char *b, size_t lb, size_t n) {
    return fold_equal(a, la < n ? la : n, b, lb < n ? lb : n);
}
inline std::string lower(const std::string &s) { std::string o = s; for (char &c : o) c = (char)fold((unsigned char)c); return o; }
inline std::string upper(const std::string &s) { std::string o = s; for (char &c : o) c = (char)unfold((unsigned char)c); return o; }

// ---- additions for containers keyed by the library's order / equality / hashes (C06 extension) ----------------
// An ordered or hashed container whose comparator realises the stated order must keep exactly one element per
// distinct value (resp. per class of values equal after folding A-Z), and an ordered one must iterate in the
// reference order.
template <class T> inline size_t count_distinct(const std::vector<std::vector<T>> &v) {
    size_t n = 0;
    for (size_t i = 0; i < v.size(); i++) {
        bool seen = false;
        for (size_t j = 0; j < i && !seen; j++) seen = cmp(v[i].data(), v[i].size(), v[j].data(), v[j].size()) == 0;
        if (!seen) n++;
    }
    return n;
}
inline size_t count_fold_classes(const std::vector<std::vector<char>> &v) {
    size_t n = 0;
    for (size_t i = 0; i < v.size(); i++) {
        bool seen = false;
        for (size_t j = 0; j < i && !seen; j++) seen = fold_equal(v[i].data(), v[i].size(), v[j].data(), v[j].size());
        if (!seen) n++;
    }
    return n;
}
// the values in non-decreasing reference order (insertion sort; a handful of operands)
template <class T> inline std::vector<std::vector<T>> sorted_by_cmp(std::vector<std::vector<T>> v) {
    for (size_t i = 1; i < v.size(); i++)
        for (size_t j = i; j > 0 && cmp(v[j].data(), v[j].size(), v[j - 1].data(), v[j - 1].size()) < 0; j--) v[j].swap(v[j - 1]);
    return v;
}

}  // namespace ref
