// Reference side of C13 (floating point <-> text).  No string_theory header.
//
// The property defines the rendering as "exactly as the C library's printf does for the
// corresponding conversion", then padded to the field width; and the parsed value as what
// strtof/strtod return on the same text.  So the reference is the C library, called by the
// harness itself: snprintf("%[+][.P]{g,f,e,E}") sized by a first snprintf(nullptr, 0, ...)
// call, followed by the padding rule (pad character on the alignment side, numbers are
// right-aligned by default, never truncated).
#pragma once
#include <cerrno>
#include <cstddef>
#include <cstdio>
#include <cstdlib>
#include <cstring>
#include <string>

namespace ref {

// conv in {g,f,e,E,G,F}; precision < 0 means "absent"
inline std::string c_printf_double(double value, char conv, bool plus, int precision) {
    char spec[32];
    size_t n = 0;
    spec[n++] = '%';
    if (plus) spec[n++] = '+';
    if (precision >= 0) n += (size_t)snprintf(spec + n, sizeof spec - n - 2, ".%d", precision);
    spec[n++] = conv;
    spec[n] = 0;
    int len = snprintf(nullptr, 0, spec, value);
    if (len < 0) return std::string();
    std::string out((size_t)len + 1, '\0');
    snprintf(&out[0], out.size(), spec, value);
    out.resize((size_t)len);
    return out;
}

enum Align { align_default = 0, align_left = 1, align_right = 2 };

// numbers: default alignment is right
inline std::string pad_number(const std::string &text, int width, Align align, char pad) {
    if (width <= 0 || (size_t)width <= text.size()) return text;
    std::string fill((size_t)width - text.size(), pad);
    return align == align_left ? text + fill : fill + text;
}

template <class V> struct ParsedF {
    V value; size_t consumed; bool range;
    bool ok(size_t) const { return consumed != 0; }
    bool full_match(size_t size) const { return consumed == size; }
};
inline ParsedF<double> c_strtod(const char *z) {
    char *end = nullptr; errno = 0; double v = strtod(z, &end);
    return {v, size_t(end - z), errno == ERANGE};
}
inline ParsedF<float> c_strtof(const char *z) {
    char *end = nullptr; errno = 0; float v = strtof(z, &end);
    return {v, size_t(end - z), errno == ERANGE};
}

// equal as results: same bits, or both NaN
inline bool same_double(double a, double b) { return (a != a && b != b) || memcmp(&a, &b, sizeof a) == 0; }
inline bool same_float(float a, float b) { return (a != a && b != b) || memcmp(&a, &b, sizeof a) == 0; }

}  // namespace ref
