// Reference interpreter of the `{...}` format mini-language, written from the
// statements of C10 / C11 / C17 in properties.jsonl.  No string_theory header.
//
//   literals : "{{" -> '{', "}}" -> '}', every other byte (incl. a lone '}') verbatim,
//              scanned left to right
//   field    : '{' item* '}'   with items, in any order and any number
//                '<' '>'          alignment
//                '_' BYTE         pad character (any non-NUL byte, also '{' '}' or a digit)
//                '0'              zero-pad flag (pad char '0', placed between sign/prefix and digits)
//                [1-9][0-9]*      minimum width
//                '.' NUMBER       precision
//                '&' NUMBER       argument reference, 1-based
//                '#' '+'          radix prefix / always signed
//                'd' 'x' 'X' 'o' 'b' 'c'   digit class / character class
//                'f' 'e' 'E'      float notation (recorded; floats are not rendered here - C13)
//              a later item of the same sort replaces an earlier one
//   NUMBER   : read the way the C function strtol(.., 10) reads: optional C-locale white
//              space, optional sign, decimal digits; no digits -> 0 and nothing consumed
//   selection: fields without a (non-negative) &N take arguments left to right, counted
//              independently of the &N fields; &N takes the N-th argument (1-based)
//
// The interpreter is total on arbitrary byte strings: it reports, in the order a
// left-to-right formatter meets them, the first malformed/unterminated field
// (BAD_FORMAT), the first unsupplied argument (OUT_OF_RANGE) or the first field that
// applies padding to a character conversion (CHAR_PAD_CONTRACT, the documented
// contract assertion), otherwise the rendered bytes.
#pragma once
#include <charconv>
#include <climits>
#include <cstdint>
#include <string>
#include <vector>

namespace ref {

// --------------------------------------------------------------------------- text helpers
// UTF-8 of a code point in 0..10FFFF by the generic bit layout (surrogate values
// included: "the UTF-8 encoding of that code point"); U+FFFD for anything else.
inline std::string utf8_of(long long cp, bool negative_or_too_big = false) {
    std::string o;
    if (negative_or_too_big || cp < 0 || cp > 0x10FFFF) return "\xEF\xBF\xBD";
    unsigned long c = (unsigned long)cp;
    if (c < 0x80) o += (char)c;
    else if (c < 0x800) { o += (char)(0xC0 + c / 64); o += (char)(0x80 + c % 64); }
    else if (c < 0x10000) { o += (char)(0xE0 + c / 4096); o += (char)(0x80 + (c / 64) % 64); o += (char)(0x80 + c % 64); }
    else { o += (char)(0xF0 + c / 262144); o += (char)(0x80 + (c / 4096) % 64); o += (char)(0x80 + (c / 64) % 64); o += (char)(0x80 + c % 64); }
    return o;
}

// Strict UTF-8 decoder (RFC 3629: shortest form, no surrogates, <= 10FFFF).
// Returns false on the first ill-formed sequence; otherwise fills `out`.
inline bool utf8_decode_strict(const std::string &s, std::vector<uint32_t> *out) {
    size_t i = 0, n = s.size();
    while (i < n) {
        unsigned b0 = (unsigned char)s[i];
        unsigned need; uint32_t cp, min;
        if (b0 < 0x80) { need = 0; cp = b0; min = 0; }
        else if (b0 >= 0xC2 && b0 <= 0xDF) { need = 1; cp = b0 & 0x1F; min = 0x80; }
        else if (b0 >= 0xE0 && b0 <= 0xEF) { need = 2; cp = b0 & 0x0F; min = 0x800; }
        else if (b0 >= 0xF0 && b0 <= 0xF4) { need = 3; cp = b0 & 0x07; min = 0x10000; }
        else return false;
        if (need && i + need >= n) return false;               // truncated sequence
        for (unsigned k = 1; k <= need; k++) {
            unsigned b = (unsigned char)s[i + k];
            if ((b & 0xC0) != 0x80) return false;
            cp = cp * 64 + (b & 0x3F);
        }
        if (cp < min || cp > 0x10FFFF || (cp >= 0xD800 && cp <= 0xDFFF)) return false;
        if (out) out->push_back(cp);
        i += need + 1;
    }
    return true;
}
inline bool utf8_valid_strict(const std::string &s) { return utf8_decode_strict(s, nullptr); }

inline std::u16string utf16_of(const std::vector<uint32_t> &cps) {
    std::u16string o;
    for (uint32_t c : cps) {
        if (c < 0x10000) o += (char16_t)c;
        else { uint32_t v = c - 0x10000; o += (char16_t)(0xD800 + v / 1024); o += (char16_t)(0xDC00 + v % 1024); }
    }
    return o;
}
// bytes read as Latin-1, written as UTF-8
inline std::string latin1_to_utf8(const std::string &bytes) {
    std::string o;
    for (unsigned char b : bytes) o += utf8_of(b);
    return o;
}

// --------------------------------------------------------------------------- arguments
struct Arg {
    enum Kind { SINT, UINT, BOOL, TEXT, FLOAT, NULLTEXT };
    Kind kind = SINT;
    long long s = 0;              // SINT
    unsigned long long u = 0;     // UINT
    bool b = false;               // BOOL
    double f = 0;                 // FLOAT (not rendered here)
    std::string text;             // TEXT: the UTF-8 bytes of the string argument
    static Arg sint(long long v) { Arg a; a.kind = SINT; a.s = v; return a; }
    static Arg uint(unsigned long long v) { Arg a; a.kind = UINT; a.u = v; return a; }
    static Arg boolean(bool v) { Arg a; a.kind = BOOL; a.b = v; return a; }
    static Arg str(const std::string &t) { Arg a; a.kind = TEXT; a.text = t; return a; }
    static Arg flt(double v) { Arg a; a.kind = FLOAT; a.f = v; return a; }
    static Arg nulltext() { Arg a; a.kind = NULLTEXT; return a; }
    bool is_integer() const { return kind == SINT || kind == UINT; }
};

// --------------------------------------------------------------------------- field specification
struct Spec {
    int align = 0;          // 0 default, 1 '<' left, 2 '>' right
    int pad = -1;           // pad byte 1..255, -1 = none given
    bool zero = false;      // zero-pad flag is the padding in force
    long width = 0;
    long precision = -1;    // < 0: none
    long index = -1;        // < 0: sequential
    bool plus = false, hash = false;
    char cls = 0;           // 0 d x X o b c
    char fcls = 0;          // 0 f e E
};

enum Kind { OK = 0, BAD_FORMAT = 1, OUT_OF_RANGE = 2, CHAR_PAD_CONTRACT = 3 };
inline const char *kind_name(int k) {
    return k == OK ? "output" : k == BAD_FORMAT ? "bad_format" : k == OUT_OF_RANGE ? "out_of_range" : k == CHAR_PAD_CONTRACT ? "char-padding contract assertion" : "?";
}

struct Field {              // what one field contributed (for non-triviality rules and diagnostics)
    Spec spec;
    size_t arg = 0;
    bool sign = false, prefix = false;
    size_t padding = 0;     // number of pad characters written
    bool cut = false;       // precision shortened the text
};

struct Result {
    Kind kind = OK;
    bool alt_out_of_range = false;   // BAD_FORMAT field that (so far) also selects an unsupplied argument: either error fits the statement
    std::string out;                 // rendered bytes (up to the failing field when kind != OK)
    std::vector<Field> fields;
    bool unmodelled = false;         // a FLOAT or NULLTEXT argument was rendered: `out` is not authoritative
    std::vector<size_t> boundaries;  // offsets in `out` where one piece of output ends and the next begins: field starts/ends, brace
                                     // escapes, between padding and the padded text, and between any two pad characters
    size_t fail_pos = 0;             // byte offset of the field that failed
};

// strtol(p, &end, 10) on a NUL-terminated byte string, as specified by the C standard
// (C locale).  Saturates like strtol; the caller narrows to int the way a cast does.
inline long c_strtol10(const std::string &s, size_t pos, size_t *end) {
    size_t i = pos;
    while (i < s.size() && (s[i] == ' ' || (s[i] >= '\t' && s[i] <= '\r'))) i++;
    bool neg = false;
    if (i < s.size() && (s[i] == '+' || s[i] == '-')) { neg = s[i] == '-'; i++; }
    if (i >= s.size() || s[i] < '0' || s[i] > '9') { *end = pos; return 0; }
    unsigned long long acc = 0; bool over = false;
    while (i < s.size() && s[i] >= '0' && s[i] <= '9') {
        if (acc > (ULLONG_MAX - 9) / 10) over = true; else acc = acc * 10 + (unsigned)(s[i] - '0');
        i++;
    }
    *end = i;
    if (neg) { if (over || acc > (unsigned long long)LONG_MAX + 1ull) return LONG_MIN; return (long)(0 - acc); }
    if (over || acc > (unsigned long long)LONG_MAX) return LONG_MAX;
    return (long)acc;
}
inline long narrow_int(long v) { return (long)(int)(unsigned)(unsigned long)v; }   // what storing into an int keeps

// Parses the field whose '{' is at s[pos].  On success *next is the offset after the '}'.
inline bool parse_field(const std::string &s, size_t pos, Spec *sp, size_t *next) {
    size_t i = pos + 1;
    for (;;) {
        if (i >= s.size()) return false;                       // unterminated
        unsigned char ch = (unsigned char)s[i];
        switch (ch) {
        case '}': *next = i + 1; return true;
        case '<': sp->align = 1; i++; break;
        case '>': sp->align = 2; i++; break;
        case '_':
            if (i + 1 >= s.size()) return false;
            sp->pad = (unsigned char)s[i + 1]; sp->zero = false; i += 2; break;
        case '0': sp->pad = '0'; sp->zero = true; i++; break;
        case '#': sp->hash = true; i++; break;
        case '+': sp->plus = true; i++; break;
        case 'd': case 'x': case 'X': case 'o': case 'b': case 'c': sp->cls = (char)ch; i++; break;
        case 'f': case 'e': case 'E': sp->fcls = (char)ch; i++; break;
        case '1': case '2': case '3': case '4': case '5': case '6': case '7': case '8': case '9': {
            size_t e; sp->width = narrow_int(c_strtol10(s, i, &e)); i = e; break; }
        case '.': {
            if (i + 1 >= s.size()) return false;
            size_t e; sp->precision = narrow_int(c_strtol10(s, i + 1, &e)); i = e; break; }
        case '&': {
            if (i + 1 >= s.size()) return false;
            size_t e; sp->index = narrow_int(c_strtol10(s, i + 1, &e)); i = e; break; }
        default: return false;                                 // unknown character
        }
    }
}

inline std::string digits_of(unsigned long long mag, int base, bool upper) {
    char buf[72];
    auto r = std::to_chars(buf, buf + sizeof buf, mag, base);
    std::string d(buf, r.ptr);
    if (upper) for (char &c : d) if (c >= 'a' && c <= 'z') c = (char)(c - 'a' + 'A');
    return d;
}

// Rendering of one selected argument.  Returns false for CHAR_PAD_CONTRACT.
inline bool render_field(const Spec &sp, const Arg &a, std::string &out, Field &fi, bool &unmodelled, std::vector<size_t> *bounds = nullptr) {
    auto padding = [&](size_t n, char ch) { for (size_t k = 0; k < n; k++) { if (bounds) bounds->push_back(out.size()); out += ch; } if (bounds) bounds->push_back(out.size()); };
    const char padc = sp.pad >= 0 ? (char)sp.pad : ' ';
    const size_t width = sp.width > 0 ? (size_t)sp.width : 0;
    if (a.is_integer()) {
        const bool neg = a.kind == Arg::SINT && a.s < 0;
        const unsigned long long mag = a.kind == Arg::UINT ? a.u : neg ? 0ull - (unsigned long long)a.s : (unsigned long long)a.s;
        if (sp.cls == 'c') {
            if (sp.width != 0 || sp.pad >= 0) return false;    // documented contract: no padding on character conversions
            out += utf8_of((long long)mag, neg || mag > 0x10FFFF);
            return true;
        }
        int base = 10; bool upper = false;
        if (sp.cls == 'x') base = 16; else if (sp.cls == 'X') { base = 16; upper = true; } else if (sp.cls == 'o') base = 8; else if (sp.cls == 'b') base = 2;
        std::string sign = neg ? "-" : sp.plus ? "+" : "";
        std::string prefix;
        if (sp.hash && mag != 0) prefix = base == 16 ? (upper ? "0X" : "0x") : base == 2 ? "0b" : base == 8 ? "0" : "";
        std::string digits = digits_of(mag, base, upper);
        size_t natural = sign.size() + prefix.size() + digits.size();
        size_t fill = width > natural ? width - natural : 0;
        fi.sign = !sign.empty(); fi.prefix = !prefix.empty(); fi.padding = fill;
        if (sp.zero) { out += sign + prefix; padding(fill, padc); out += digits; }
        else if (sp.align == 1) { out += sign + prefix + digits; padding(fill, padc); }
        else { padding(fill, padc); out += sign + prefix + digits; }       // numbers: right by default
        return true;
    }
    std::string text;
    if (a.kind == Arg::BOOL) text = a.b ? "true" : "false";
    else if (a.kind == Arg::TEXT) text = a.text;
    else { unmodelled = true; if (a.kind == Arg::FLOAT) text = "<float>"; else return true; }
    if (sp.precision >= 0 && text.size() > (size_t)sp.precision) { text.resize((size_t)sp.precision); fi.cut = true; }
    size_t fill = width > text.size() ? width - text.size() : 0;
    fi.padding = fill;
    if (sp.align == 2) { padding(fill, padc); out += text; }
    else { out += text; padding(fill, padc); }                              // text: left by default
    return true;
}

inline Result interpret(const std::string &fmt, const std::vector<Arg> &args) {
    Result r;
    size_t i = 0, seq = 0;
    const size_t n = fmt.size();
    while (i < n) {
        char ch = fmt[i];
        if (ch == '{' && i + 1 < n && fmt[i + 1] == '{') { r.boundaries.push_back(r.out.size()); r.out += '{'; r.boundaries.push_back(r.out.size()); i += 2; continue; }
        if (ch == '}' && i + 1 < n && fmt[i + 1] == '}') { r.boundaries.push_back(r.out.size()); r.out += '}'; r.boundaries.push_back(r.out.size()); i += 2; continue; }
        if (ch != '{') { r.out += ch; i++; continue; }
        Field fi; size_t next = 0;
        r.fail_pos = i;
        if (!parse_field(fmt, i, &fi.spec, &next)) {
            r.kind = BAD_FORMAT;
            size_t sel = fi.spec.index >= 0 ? (size_t)fi.spec.index - 1 : seq;
            r.alt_out_of_range = sel >= args.size();
            return r;
        }
        size_t sel = fi.spec.index >= 0 ? (size_t)fi.spec.index - 1 : seq++;   // &0 wraps to "not supplied"
        if (sel >= args.size()) { r.kind = OUT_OF_RANGE; return r; }
        fi.arg = sel;
        r.boundaries.push_back(r.out.size());
        if (!render_field(fi.spec, args[sel], r.out, fi, r.unmodelled, &r.boundaries)) { r.kind = CHAR_PAD_CONTRACT; return r; }
        r.boundaries.push_back(r.out.size());
        r.fields.push_back(fi);
        i = next;
    }
    return r;
}

}  // namespace ref
