// Extension of the reference interpreter (ref/ref_format.h) for the C11 harness: arguments whose
// rendering is composed by a user-defined format_type extension point.  No string_theory header.
//
//   PLAIN       : the argument renders exactly as ref::render_field says
//   TEXT_RIGHT  : text handed to ST::format_string with default_alignment = right: as text, but a field
//                 without '<' / '>' puts the padding on the LEFT
//   PAIR        : two values rendered one after the other with the SAME field specification,
//                 `sep` between them and `tail` after them (the shape of the std::complex formatter)
//   VERBATIM    : the formatter ignores the specification and writes `sep` unchanged
#pragma once
#include "ref/ref_format.h"

namespace refx {

struct Arg {
    enum Kind { PLAIN, TEXT_RIGHT, PAIR, VERBATIM };
    Kind kind = PLAIN;
    ref::Arg a, b;
    std::string sep, tail;
    static Arg plain(const ref::Arg &x) { Arg r; r.a = x; return r; }
    static Arg text_right(const std::string &t) { Arg r; r.kind = TEXT_RIGHT; r.a = ref::Arg::str(t); return r; }
    static Arg pair(const ref::Arg &x, const std::string &sep, const ref::Arg &y, const std::string &tail) { Arg r; r.kind = PAIR; r.a = x; r.b = y; r.sep = sep; r.tail = tail; return r; }
    static Arg verbatim(const std::string &t) { Arg r; r.kind = VERBATIM; r.sep = t; return r; }
};

// Same scan as ref::interpret (literals, brace escapes, selection), rendering through the kinds above.
inline ref::Result interpret(const std::string &fmt, const std::vector<Arg> &args) {
    ref::Result r;
    size_t i = 0, seq = 0;
    const size_t n = fmt.size();
    while (i < n) {
        char ch = fmt[i];
        if (ch == '{' && i + 1 < n && fmt[i + 1] == '{') { r.out += '{'; i += 2; continue; }
        if (ch == '}' && i + 1 < n && fmt[i + 1] == '}') { r.out += '}'; i += 2; continue; }
        if (ch != '{') { r.out += ch; i++; continue; }
        ref::Field fi; size_t next = 0;
        r.fail_pos = i;
        if (!ref::parse_field(fmt, i, &fi.spec, &next)) { r.kind = ref::BAD_FORMAT; return r; }
        size_t sel = fi.spec.index >= 0 ? (size_t)fi.spec.index - 1 : seq++;
        if (sel >= args.size()) { r.kind = ref::OUT_OF_RANGE; return r; }
        fi.arg = sel;
        const Arg &a = args[sel];
        bool ok = true;
        switch (a.kind) {
        case Arg::PLAIN: ok = ref::render_field(fi.spec, a.a, r.out, fi, r.unmodelled); break;
        case Arg::TEXT_RIGHT: { ref::Spec s2 = fi.spec; if (s2.align == 0) s2.align = 2; ok = ref::render_field(s2, a.a, r.out, fi, r.unmodelled); break; }
        case Arg::PAIR: {
            ref::Field f2;
            ok = ref::render_field(fi.spec, a.a, r.out, fi, r.unmodelled);
            if (ok) { r.out += a.sep; ok = ref::render_field(fi.spec, a.b, r.out, f2, r.unmodelled); r.out += a.tail; }
            fi.sign = fi.sign || f2.sign; fi.prefix = fi.prefix || f2.prefix; fi.padding += f2.padding;
            break; }
        default: r.out += a.sep; break;
        }
        if (!ok) { r.kind = ref::CHAR_PAD_CONTRACT; return r; }
        r.fields.push_back(fi);
        i = next;
    }
    return r;
}

}  // namespace refx
