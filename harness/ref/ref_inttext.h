// Reference side of C12 (integer <-> text).  No string_theory header.
//
// Printing: the canonical digit string of a value in base 2..36 is what std::to_chars
// produces (leading '-' for negatives, no leading zeros, lower-case letters); the
// upper-case form maps 'a'..'z' to 'A'..'Z'.
// Parsing: the property names the C library's strtol family as the definition, so the
// reference *is* a call of strtol/strtoll/strtoul/strtoull made by the harness on its
// own NUL-terminated copy of the bytes, plus the flag rule of the statement:
//     ok         <=> at least one character was consumed
//     full_match <=> all size characters were consumed   (empty text: full_match, not ok)
#pragma once
#include <cerrno>
#include <charconv>
#include <cstddef>
#include <cstdlib>
#include <string>

namespace ref {

template <class T> inline std::string int_text(T value, int base, bool upper_case) {
    char buf[72];   // 64 binary digits + sign
    std::to_chars_result r = std::to_chars(buf, buf + sizeof buf, value, base);
    std::string s(buf, r.ptr);
    if (upper_case)
        for (char &ch : s)
            if (ch >= 'a' && ch <= 'z') ch = char(ch - 'a' + 'A');
    return s;
}

// Result of one strto* call on a NUL-terminated buffer z that holds `size` bytes before
// its final NUL (the bytes may contain further NULs; the C library stops at the first).
template <class V> struct Parsed {
    V value;          // what the C library returned
    size_t consumed;  // endp - z
    bool range;       // errno == ERANGE
    bool ok(size_t) const { return consumed != 0; }
    bool full_match(size_t size) const { return consumed == size; }
};

inline Parsed<long> c_strtol(const char *z, int base) {
    char *end = nullptr; errno = 0; long v = strtol(z, &end, base);
    return {v, size_t(end - z), errno == ERANGE};
}
inline Parsed<long long> c_strtoll(const char *z, int base) {
    char *end = nullptr; errno = 0; long long v = strtoll(z, &end, base);
    return {v, size_t(end - z), errno == ERANGE};
}
inline Parsed<unsigned long> c_strtoul(const char *z, int base) {
    char *end = nullptr; errno = 0; unsigned long v = strtoul(z, &end, base);
    return {v, size_t(end - z), errno == ERANGE};
}
inline Parsed<unsigned long long> c_strtoull(const char *z, int base) {
    char *end = nullptr; errno = 0; unsigned long long v = strtoull(z, &end, base);
    return {v, size_t(end - z), errno == ERANGE};
}

}  // namespace ref
