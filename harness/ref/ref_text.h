// Reference text operations for C07 (searching), C08 (slicing) and C09 (split / tokenize /
// replace / join), written from the property statements as naive scans over std::string.
// Bytes are bytes: no Unicode awareness except the ASCII-only case fold the statements name.
// No string_theory header is included here.
#pragma once
#include <cstddef>
#include <cstdint>
#include <string>
#include <vector>

namespace ref {

typedef long long idx_t;                      // an index or -1

// "Case-insensitive variants match modulo ASCII case only"
inline unsigned char fold(unsigned char c) { return (c >= 'A' && c <= 'Z') ? (unsigned char)(c + ('a' - 'A')) : c; }
inline bool same(char a, char b, bool ci) {
    unsigned char x = (unsigned char)a, y = (unsigned char)b;
    return ci ? fold(x) == fold(y) : x == y;
}

// what a `const char *` overload can see of a byte string: everything before its first NUL
inline std::string c_view(const std::string &s) {
    size_t i = 0;
    while (i < s.size() && s[i] != '\0') i++;
    return std::string(s.data(), i);
}

// does n occur in h at index i (entirely inside h)?
inline bool occurs_at(const std::string &h, size_t i, const std::string &n, bool ci) {
    if (i > h.size() || n.size() > h.size() - i) return false;
    for (size_t k = 0; k < n.size(); k++) if (!same(h[i + k], n[k], ci)) return false;
    return true;
}

// C07: smallest index at or after start where n occurs; -1 when there is none, n is empty,
// or start is at or past the end
inline idx_t find(const std::string &h, size_t start, const std::string &n, bool ci) {
    if (n.empty() || start >= h.size()) return -1;
    for (size_t i = start; i < h.size(); i++) if (occurs_at(h, i, n, ci)) return (idx_t)i;
    return -1;
}

// C07: largest index of an occurrence lying entirely before limit (and inside h)
inline idx_t find_last(const std::string &h, size_t limit, const std::string &n, bool ci) {
    if (n.empty()) return -1;
    size_t end = limit < h.size() ? limit : h.size();
    idx_t best = -1;
    for (size_t i = 0; i < end; i++) if (n.size() <= end - i && occurs_at(h, i, n, ci)) best = (idx_t)i;
    return best;
}

inline bool starts_with(const std::string &h, const std::string &p, bool ci) { return occurs_at(h, 0, p, ci); }
inline bool ends_with(const std::string &h, const std::string &p, bool ci) {
    return p.size() <= h.size() && occurs_at(h, h.size() - p.size(), p, ci);
}

// number of indices at which n occurs (overlapping occurrences counted)
inline size_t count_occurrences(const std::string &h, const std::string &n, bool ci) {
    size_t c = 0;
    if (n.empty()) return 0;
    for (size_t i = 0; i < h.size(); i++) if (occurs_at(h, i, n, ci)) c++;
    return c;
}
// two occurrences of n in h closer than |n| (n "overlaps itself" inside h)
inline bool has_overlapping_occurrences(const std::string &h, const std::string &n, bool ci) {
    if (n.size() < 2) return false;
    idx_t prev = -1;
    for (size_t i = 0; i < h.size(); i++) if (occurs_at(h, i, n, ci)) { if (prev >= 0 && i - (size_t)prev < n.size()) return true; prev = (idx_t)i; }
    return false;
}
// a position where the first byte of n matches but n does not occur (a "first-byte hit that fails later")
inline bool has_false_start(const std::string &h, const std::string &n, bool ci) {
    if (n.size() < 2) return false;
    for (size_t i = 0; i < h.size(); i++) if (same(h[i], n[0], ci) && !occurs_at(h, i, n, ci)) return true;
    return false;
}
// an occurrence of n in h that contains position p strictly inside it (i < p < i+|n|)
inline bool occurrence_straddles(const std::string &h, const std::string &n, bool ci, size_t p) {
    for (size_t i = 0; i < h.size(); i++) if (occurs_at(h, i, n, ci) && i < p && p - i < n.size()) return true;
    return false;
}
// a proper non-empty prefix of n that is a suffix of h while n itself does not end there (n "straddles the end")
inline bool prefix_runs_past_end(const std::string &h, const std::string &n, bool ci) {
    for (size_t k = 1; k < n.size() && k <= h.size(); k++) if (occurs_at(h, h.size() - k, n.substr(0, k), ci)) return true;
    return false;
}

// ---------------------------------------------------------------------------------------------
// C08

// substr(start,count): the bytes [start, start+count) clipped to the string; a negative start counts
// from the end (and is itself clipped to the beginning, cf. upstream test "AAAxxxx".substr(-10,3)=="AAA");
// a start beyond the end gives the empty string.  All arithmetic is done without wrapping.
inline std::string substr(const std::string &s, long long start, unsigned long long count) {
    const unsigned long long n = s.size();
    unsigned long long b;
    if (start < 0) {
        unsigned long long back = 0ull - (unsigned long long)start;   // |start|, exact also for LLONG_MIN
        b = back >= n ? 0 : n - back;
    } else {
        if ((unsigned long long)start > n) return std::string();
        b = (unsigned long long)start;
    }
    unsigned long long avail = n - b;
    unsigned long long len = count < avail ? count : avail;
    return std::string(s.data() + b, (size_t)len);
}
inline std::string left(const std::string &s, unsigned long long n) {
    return std::string(s.data(), (size_t)(n < s.size() ? n : s.size()));
}
inline std::string right(const std::string &s, unsigned long long n) {
    size_t k = (size_t)(n < s.size() ? n : s.size());
    return std::string(s.data() + (s.size() - k), k);
}
inline bool in_set(char c, const std::string &set) {
    for (char x : set) if (x == c) return true;
    return false;
}
inline std::string trim_left(const std::string &s, const std::string &set) {
    size_t b = 0;
    while (b < s.size() && in_set(s[b], set)) b++;
    return std::string(s.data() + b, s.size() - b);
}
inline std::string trim_right(const std::string &s, const std::string &set) {
    size_t e = s.size();
    while (e > 0 && in_set(s[e - 1], set)) e--;
    return std::string(s.data(), e);
}
inline std::string trim(const std::string &s, const std::string &set) { return trim_right(trim_left(s, set), set); }

// the four separator slicers.  found=false: before_first/after_last whole, before_last/after_first empty.
struct Sides { bool found; std::string before, matched, after; };
inline Sides around_first(const std::string &s, const std::string &sep, bool ci) {
    idx_t p = find(s, 0, sep, ci);
    if (p < 0) return Sides{false, s, std::string(), std::string()};
    return Sides{true, s.substr(0, (size_t)p), s.substr((size_t)p, sep.size()), s.substr((size_t)p + sep.size())};
}
inline Sides around_last(const std::string &s, const std::string &sep, bool ci) {
    idx_t p = find_last(s, (size_t)-1, sep, ci);
    if (p < 0) return Sides{false, std::string(), std::string(), s};
    return Sides{true, s.substr(0, (size_t)p), s.substr((size_t)p, sep.size()), s.substr((size_t)p + sep.size())};
}

// ---------------------------------------------------------------------------------------------
// C09

// split(sep,max): cut at the first max non-overlapping occurrences found left to right;
// an empty separator leaves the text whole
inline std::vector<std::string> split(const std::string &s, const std::string &sep, unsigned long long max, bool ci) {
    std::vector<std::string> out;
    size_t pos = 0;
    unsigned long long cuts = 0;
    if (!sep.empty()) {
        while (cuts < max) {
            idx_t p = find(s, pos, sep, ci);
            if (p < 0) break;
            out.push_back(s.substr(pos, (size_t)p - pos));
            pos = (size_t)p + sep.size();
            cuts++;
        }
    }
    out.push_back(s.substr(pos));
    return out;
}
inline std::string join(const std::vector<std::string> &pieces, const std::string &sep) {
    std::string o;
    for (size_t i = 0; i < pieces.size(); i++) { if (i) o += sep; o += pieces[i]; }
    return o;
}
// tokenize: in order, exactly the maximal non-empty runs of bytes not in the delimiter set
inline std::vector<std::string> tokenize(const std::string &s, const std::string &delims) {
    std::vector<std::string> out;
    size_t i = 0;
    while (i < s.size()) {
        if (in_set(s[i], delims)) { i++; continue; }
        size_t j = i;
        while (j < s.size() && !in_set(s[j], delims)) j++;
        out.push_back(s.substr(i, j - i));
        i = j;
    }
    return out;
}
// replace(from,to): every non-overlapping left-to-right occurrence of from, nothing else;
// an empty pattern leaves the text whole.  *k receives the number of occurrences replaced.
inline std::string replace(const std::string &s, const std::string &from, const std::string &to, bool ci, size_t *k = nullptr) {
    size_t n = 0;
    std::string o;
    size_t pos = 0;
    if (!from.empty()) {
        for (;;) {
            idx_t p = find(s, pos, from, ci);
            if (p < 0) break;
            o.append(s, pos, (size_t)p - pos);
            o += to;
            pos = (size_t)p + from.size();
            n++;
        }
    }
    o.append(s, pos, std::string::npos);
    if (k) *k = n;
    return o;
}

// Structural UTF-8 validity as the default validation understands it (DESIGN.md 3(c)): every byte
// < 0x80 stands alone; 110xxxxx / 1110xxxx / 11110xxx are followed by exactly 1 / 2 / 3 bytes of the
// form 10xxxxxx; anything else (stray continuation, 0xF8..0xFF, truncated sequence) is invalid.
inline bool utf8_structurally_valid(const std::string &s) {
    size_t i = 0;
    while (i < s.size()) {
        unsigned char c = (unsigned char)s[i];
        size_t follow;
        if (c < 0x80) follow = 0;
        else if (c >= 0xC0 && c <= 0xDF) follow = 1;
        else if (c >= 0xE0 && c <= 0xEF) follow = 2;
        else if (c >= 0xF0 && c <= 0xF7) follow = 3;
        else return false;
        if (follow > s.size() - i - 1) return false;
        for (size_t k = 1; k <= follow; k++) if (((unsigned char)s[i + k] & 0xC0) != 0x80) return false;
        i += follow + 1;
    }
    return true;
}
inline bool all_ascii(const std::string &s) { for (unsigned char c : s) if (c >= 0x80) return false; return true; }

// ---------------------------------------------------------------------------------------------
// Additions for long haystacks (C07 extension).  Same definitions as find()/find_last() above, answered from the
// list of ALL occurrences, which is computed by one naive pass per (haystack, needle, case mode) - so that many
// start/limit queries on a haystack of tens of KB stay cheap.

// every index at which n occurs in h (entirely inside h), ascending; none for the empty needle
inline std::vector<size_t> all_occurrences(const std::string &h, const std::string &n, bool ci) {
    std::vector<size_t> o;
    if (n.empty() || n.size() > h.size()) return o;
    for (size_t i = 0; i + n.size() <= h.size(); i++) if (occurs_at(h, i, n, ci)) o.push_back(i);
    return o;
}
// smallest occurrence at or after start; -1 when there is none or start is at or past the end
inline idx_t find_in(const std::vector<size_t> &occ, size_t hsize, size_t start) {
    if (start >= hsize) return -1;
    for (size_t i : occ) if (i >= start) return (idx_t)i;
    return -1;
}
// largest occurrence lying entirely before limit (and inside the haystack)
inline idx_t find_last_in(const std::vector<size_t> &occ, size_t hsize, size_t nsize, size_t limit) {
    const size_t end = limit < hsize ? limit : hsize;
    idx_t best = -1;
    for (size_t i : occ) { if (nsize > end || i > end - nsize) break; best = (idx_t)i; }
    return best;
}

}  // namespace ref
