// Additions to ref_text.h used only by the extended C08 / C09 harnesses (kept in a separate header so that the shared
// ref_text.h stays untouched).  Written from the property statements; no string_theory header is included here.
#pragma once
#include <cstddef>
#include <cstdint>
#include <string>
#include <vector>
#include "ref/ref_text.h"

namespace ref89 {

// "joining them with sep reproduces the original": an explicit join by hand over (pointer, length) views of the pieces
// exactly as the library returned them, nothing borrowed from the split model.
struct Piece { const char *p; size_t n; };
inline std::string join_by_hand(const std::vector<Piece> &pieces, const char *sep, size_t sep_len) {
    std::string o;
    for (size_t i = 0; i < pieces.size(); i++) {
        if (i) o.append(sep, sep_len);
        o.append(pieces[i].p, pieces[i].n);
    }
    return o;
}

// case-insensitive reassembly: the pieces are consecutive parts of the original and between two pieces lies a run of
// |sep| bytes that equals sep modulo ASCII letter case.  Returns an empty string when it holds, else the reason.
inline std::string reassembles_ci(const std::string &s, const std::vector<Piece> &pieces, const std::string &sep) {
    size_t pos = 0;
    for (size_t i = 0; i < pieces.size(); i++) {
        if (pieces[i].n > s.size() - pos) return "piece " + std::to_string(i) + " runs past the end of the original";
        for (size_t k = 0; k < pieces[i].n; k++) if (s[pos + k] != pieces[i].p[k]) return "piece " + std::to_string(i) + " is not the next part of the original";
        pos += pieces[i].n;
        if (i + 1 < pieces.size()) {
            if (!ref::occurs_at(s, pos, sep, true)) return "no separator occurrence between pieces " + std::to_string(i) + " and " + std::to_string(i + 1);
            pos += sep.size();
        }
    }
    if (pos != s.size()) return "pieces and separators do not cover the original";
    return std::string();
}

// before_last / after_last for long subjects: "the last occurrence" found by scanning start positions downwards and
// stopping at the first hit (ref::around_last visits every position; same meaning, linear instead of quadratic on runs)
inline ref::Sides around_last(const std::string &s, const std::string &sep, bool ci) {
    if (!sep.empty() && sep.size() <= s.size())
        for (size_t i = s.size() - sep.size() + 1; i-- > 0;)
            if (ref::occurs_at(s, i, sep, ci)) return ref::Sides{true, s.substr(0, i), s.substr(i, sep.size()), s.substr(i + sep.size())};
    return ref::Sides{false, std::string(), std::string(), s};
}

// trims for long subjects / long character sets: membership decided by a 256-entry table built from the set (ref::trim_*
// walks the set for every byte; same meaning)
struct ByteSet { bool in[256]; explicit ByteSet(const std::string &set) { for (bool &b : in) b = false; for (char c : set) in[(unsigned char)c] = true; } };
inline std::string trim_left(const std::string &s, const std::string &set) {
    const ByteSet t(set); size_t b = 0;
    while (b < s.size() && t.in[(unsigned char)s[b]]) b++;
    return std::string(s.data() + b, s.size() - b);
}
inline std::string trim_right(const std::string &s, const std::string &set) {
    const ByteSet t(set); size_t e = s.size();
    while (e > 0 && t.in[(unsigned char)s[e - 1]]) e--;
    return std::string(s.data(), e);
}
inline std::string trim(const std::string &s, const std::string &set) { return trim_right(trim_left(s, set), set); }
// tokenize with the same table
inline std::vector<std::string> tokenize(const std::string &s, const std::string &delims) {
    const ByteSet t(delims);
    std::vector<std::string> out;
    size_t i = 0;
    while (i < s.size()) {
        if (t.in[(unsigned char)s[i]]) { i++; continue; }
        size_t j = i;
        while (j < s.size() && !t.in[(unsigned char)s[j]]) j++;
        out.push_back(s.substr(i, j - i));
        i = j;
    }
    return out;
}

// number of non-overlapping left-to-right occurrences (the k of the replace length formula, the number of cuts of an unlimited split)
inline size_t count_nonoverlapping(const std::string &h, const std::string &n, bool ci) {
    if (n.empty()) return 0;
    size_t c = 0, pos = 0;
    for (;;) { ref::idx_t p = ref::find(h, pos, n, ci); if (p < 0) break; c++; pos = (size_t)p + n.size(); }
    return c;
}

// does a byte of the pair (a, b) differ only by 0x20 without being an ASCII letter pair?  (what a fold by "| 0x20" or
// "^ 0x20" would wrongly identify)
inline bool xor20_non_letter_pair(char a, char b) {
    unsigned char x = (unsigned char)a, y = (unsigned char)b;
    return (x ^ y) == 0x20 && ref::fold(x) != ref::fold(y);
}
// n "almost occurs" in h at some index: every byte equal, equal modulo letter case, or an XOR-0x20 non-letter pair, with at
// least one such pair - an alignment that case folding must reject
inline bool has_xor20_near_miss(const std::string &h, const std::string &n) {
    if (n.empty() || n.size() > h.size()) return false;
    for (size_t i = 0; i + n.size() <= h.size(); i++) {
        bool bad = false, ok = true;
        for (size_t k = 0; k < n.size() && ok; k++) {
            if (ref::same(h[i + k], n[k], true)) continue;
            if (xor20_non_letter_pair(h[i + k], n[k])) bad = true; else ok = false;
        }
        if (ok && bad) return true;
    }
    return false;
}

}  // namespace ref89
