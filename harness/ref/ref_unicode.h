// Reference Unicode model written from the statements of C01/C02/C03.
// No string_theory header.  Units are carried as uint32_t regardless of encoding.
//
// Reading model (C02): units are read left to right.  Forms the library tolerates by
// design count as well-formed: overlong UTF-8 encodings, UTF-8 encoded surrogates,
// 4-byte UTF-8 forms above U+10FFFF (up to 0x1FFFFF), a low surrogate followed by a
// high one in UTF-16 (read as the pair), surrogate code points in UTF-32.
// Offending units (each is one item of one unit): stray continuation byte, lead byte
// with too few continuation bytes before the next character or the end, bytes F8..FF,
// unpaired surrogate, UTF-32 value above 10FFFF.
#pragma once
#include <cstddef>
#include <cstdint>
#include <string>
#include <vector>

namespace ref {

enum Enc { UTF8 = 0, UTF16 = 1, UTF32 = 2, LATIN1 = 3 };
enum Mode { ASSUME_VALID = 0, SUBSTITUTE = 1, CHECK = 2 };
typedef std::vector<uint32_t> Units;

struct Item {
    bool ok;          // false: offending unit
    uint32_t value;   // decoded value when ok (may be a tolerated non-scalar)
    size_t units;     // source units consumed (1 when !ok)
    bool irregular;   // ok, but a tolerated irregular form (overlong / surrogate / above 10FFFF / reversed pair)
};

inline bool is_scalar(uint32_t v) { return v <= 0x10FFFF && !(v >= 0xD800 && v <= 0xDFFF); }

inline std::vector<Item> decode(Enc enc, const Units &u) {
    std::vector<Item> out;
    size_t n = u.size(), i = 0;
    while (i < n) {
        uint32_t c = u[i];
        Item it{true, c, 1, false};
        if (enc == LATIN1) {
            it.value = c & 0xFF;
        } else if (enc == UTF32) {
            if (c > 0x10FFFF) it.ok = false;
            else if (c >= 0xD800 && c <= 0xDFFF) it.irregular = true;
        } else if (enc == UTF16) {
            c &= 0xFFFF;
            it.value = c;
            if (c >= 0xD800 && c <= 0xDFFF) {
                bool hi = c < 0xDC00;
                if (i + 1 < n) {
                    uint32_t d = u[i + 1] & 0xFFFF;
                    if (hi && d >= 0xDC00 && d <= 0xDFFF) { it.value = 0x10000 + ((c - 0xD800) << 10) + (d - 0xDC00); it.units = 2; }
                    else if (!hi && d >= 0xD800 && d <= 0xDBFF) { it.value = 0x10000 + ((d - 0xD800) << 10) + (c - 0xDC00); it.units = 2; it.irregular = true; }
                    else it.ok = false;
                } else it.ok = false;
            }
        } else {  // UTF8
            c &= 0xFF;
            size_t need = 0; uint32_t v = 0, min = 0;
            if (c < 0x80) { need = 0; v = c; }
            else if (c >= 0xC0 && c <= 0xDF) { need = 1; v = c & 0x1F; min = 0x80; }
            else if (c >= 0xE0 && c <= 0xEF) { need = 2; v = c & 0x0F; min = 0x800; }
            else if (c >= 0xF0 && c <= 0xF7) { need = 3; v = c & 0x07; min = 0x10000; }
            else { it.ok = false; }               // 80..BF stray continuation, F8..FF
            if (it.ok && need) {
                bool complete = (n - i - 1 >= need);      // enough units left before the end
                if (complete) for (size_t k = 1; k <= need; k++) if (((u[i + k] & 0xFF) & 0xC0) != 0x80) complete = false;
                if (!complete) it.ok = false;
                else {
                    for (size_t k = 1; k <= need; k++) v = (v << 6) | ((u[i + k] & 0xFF) & 0x3F);
                    it.value = v; it.units = need + 1;
                    if (v < min || (v >= 0xD800 && v <= 0xDFFF) || v > 0x10FFFF) it.irregular = true;
                }
            }
            if (!it.ok) { it.value = c; it.units = 1; }
        }
        out.push_back(it);
        i += it.units;
    }
    return out;
}

inline void encode_one(Enc enc, uint32_t v, Units &out) {
    if (enc == UTF32) { out.push_back(v); return; }
    if (enc == LATIN1) { out.push_back(v & 0xFF); return; }
    if (enc == UTF16) {
        if (v < 0x10000) out.push_back(v);
        else { v -= 0x10000; out.push_back(0xD800 + (v >> 10)); out.push_back(0xDC00 + (v & 0x3FF)); }
        return;
    }
    if (v < 0x80) out.push_back(v);
    else if (v < 0x800) { out.push_back(0xC0 | (v >> 6)); out.push_back(0x80 | (v & 0x3F)); }
    else if (v < 0x10000) { out.push_back(0xE0 | (v >> 12)); out.push_back(0x80 | ((v >> 6) & 0x3F)); out.push_back(0x80 | (v & 0x3F)); }
    else { out.push_back(0xF0 | (v >> 18)); out.push_back(0x80 | ((v >> 12) & 0x3F)); out.push_back(0x80 | ((v >> 6) & 0x3F)); out.push_back(0x80 | (v & 0x3F)); }
}

// standard encoding of a sequence of scalar values
inline Units encode(Enc enc, const std::vector<uint32_t> &scalars) {
    Units out;
    for (uint32_t v : scalars) encode_one(enc, v, out);
    return out;
}

struct Expect {
    bool throws = false;          // ST::unicode_error is the required outcome
    bool may_throw = false;       // either ST::unicode_error or `out` is acceptable (value the target cannot represent, DESIGN 3(b))
    Units out;                    // required result when it does not throw
    std::vector<bool> wild;       // out[i] is not determined by the property (malformed input under assume_valid)
    bool has_offending = false;   // the input contains an offending unit
    bool has_irregular = false;   // the input contains a tolerated irregular form
    bool latin1_range = false;    // a well-formed value >= U+0100 meets a Latin-1 target
};

// The conversion `src` units (encoding `from`) -> encoding `to` under `mode`.
// same_encoding_copy: the UTF-8 -> ST::string path keeps well-formed (incl. tolerated) sequences verbatim.
inline Expect expect(Enc from, Enc to, Mode mode, const Units &src, bool latin1_substitute_out_of_range = true) {
    Expect e;
    std::vector<Item> items = decode(from, src);
    size_t pos = 0;
    for (const Item &it : items) {
        if (!it.ok) {
            e.has_offending = true;
            if (mode == CHECK) e.throws = true;
            if (from == UTF8 && to == UTF8 && mode == ASSUME_VALID) { e.out.push_back(src[pos] & 0xFF); e.wild.push_back(false); }   // verbatim copy
            else {
                Units sub;
                if (to == LATIN1) sub.push_back('?'); else encode_one(to, 0xFFFD, sub);
                for (uint32_t s : sub) { e.out.push_back(s); e.wild.push_back(mode == ASSUME_VALID); }
            }
        } else {
            if (it.irregular) e.has_irregular = true;
            if (from == UTF8 && to == UTF8) {
                for (size_t k = 0; k < it.units; k++) { e.out.push_back(src[pos + k] & 0xFF); e.wild.push_back(false); }
            } else if (to == LATIN1 && it.value >= 0x100) {
                e.latin1_range = true;
                if (latin1_substitute_out_of_range) { e.out.push_back('?'); e.wild.push_back(false); }
                else e.throws = true;            // documented meaning of the flag, in every mode
            } else if ((to == UTF16 || to == UTF8) && it.value > 0x10FFFF) {
                // tolerated on the reading side but not representable in the target
                Units sub; encode_one(to, 0xFFFD, sub);
                for (uint32_t s : sub) { e.out.push_back(s); e.wild.push_back(false); }
                if (mode != SUBSTITUTE) e.may_throw = true;
            } else {
                Units enc; encode_one(to, it.value, enc);
                for (uint32_t s : enc) { e.out.push_back(s); e.wild.push_back(false); }
            }
        }
        pos += it.units;
    }
    return e;
}

inline bool well_formed(Enc enc, const Units &u) {
    for (const Item &it : decode(enc, u)) if (!it.ok || it.irregular) return false;
    return true;
}

}  // namespace ref
