# Sizing and claim for C01 (well-formed text transcodes losslessly, every route)
SPEC = {
    "quick": {"rc_cases": 4000, "rc_procs": 12, "enum": True},
    "thorough": {"rc_cases": 20000, "rc_procs": 12, "enum": True, "fuzz_secs": 0},
    "assumptions": [
        "harness/ref/ref_unicode.h encoders are the standard UTF-8/16/32 encodings",
        "sizeof(wchar_t)==4: wchar_t routes are UTF-32 routes on this platform; the 16-bit wchar_t branches are not compiled",
    ],
    "claim": {
        "category": "exploration",
        "technique": "exhaustive enumeration of all Unicode scalar values (x13 neighbour contexts in the thorough tier) and of all Latin-1 bytes/pairs, plus rapidcheck-generated scalar sequences through every public conversion route, compared unit-for-unit with reference encoders",
        "text": "Every one of the 1,112,064 scalar values is converted by 15 conversions x 3 modes and the ST::string members and compared with an independent encoder (alone in the quick tier, in 13 neighbour contexts in the thorough tier); all 256 Latin-1 bytes and 65,536 pairs go to every UTF form and back. Generated sequences up to 300 scalars exercise ~300 route x mode combinations per case (pointer+length, buffer, char8_t, std::basic_string, string_view, constructors, set, operator=, from_*/to_*, literal operators).",
        "level_note": "The single-character space is exhausted; longer sequences are sampled. Reference encoders are the trusted base.",
    },
}
