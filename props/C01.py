# Sizing and claim for C01 (well-formed text transcodes losslessly, every route)
SPEC = {
    "variants": {"": [], "uchar": ["-funsigned-char"]},   # the second build variant uses an unsigned plain char (-funsigned-char: the ARM / AArch64 / PowerPC default); in the quick tier it runs a reduced number of generated cases and no enumerators
    "quick": {"rc_cases": 3000, "rc_procs": 12, "enum": True, "variant_cfg": {"uchar": {"rc_cases": 1500, "rc_procs": 4, "enum": False}}},
    "thorough": {"rc_cases": 20000, "rc_procs": 12, "enum": True, "fuzz_secs": 0},
    "assumptions": [
        "harness/ref/ref_unicode.h encoders are the standard UTF-8/16/32 encodings",
        "sizeof(wchar_t)==4: wchar_t routes are UTF-32 routes on this platform; the 16-bit wchar_t branches are not compiled",
    ],
    "claim": {
        "category": "exploration",
        "technique": "exhaustive enumeration of all Unicode scalar values (x13 neighbour contexts in the thorough tier) and of all Latin-1 bytes/pairs, a deterministic grid of long single-character runs, compiled-in literals, plus rapidcheck-generated scalar sequences through every public conversion route, compared unit-for-unit with reference encoders",
        "text": "Every one of the 1,112,064 scalar values is converted by 15 conversions x 3 modes and the ST::string members and compared with an independent encoder (alone in the quick tier, in 13 neighbour contexts in the thorough tier); all 256 Latin-1 bytes and 65,536 pairs go to every UTF form and back; runs of one identical 2-, 3-, 4-byte or Latin-1 high character of 256 Ki..320 Ki units (to 1 Mi in the thorough tier), exact block multiples and one off, go through every conversion pair x 3 modes; 16 literals with embedded NULs and multi-byte endings are checked in 15 literal forms (ST_LITERAL, ST_*_LITERAL, _st, _stbuf). Generated sequences up to 300 scalars exercise ~300 route x mode combinations per case (pointer+length, buffer, char8_t, std::basic_string, string_view, constructors, set, operator=, from_*/to_*, literal operators) plus 100-270 extended calls: mode omitted, C-string overloads of every width, set_validated/from_validated, std::filesystem::path, caller-supplied outputs on pre-filled targets, deprecated utf_validation_t overloads, view(), ST::null, ten target pre-states, operator+/+= with C strings and single characters on either side, and set/operator=/+= from pointers and views into the target itself in all three modes. Both tiers run a second build with an unsigned plain char (-funsigned-char; a reduced number of generated cases and no enumerators in the quick tier). Every exact-size input copy starts 0..7 bytes past a 16-byte boundary (a function of the case bytes; 0 for half of the cases) and still ends where its heap block ends.",
        "level_note": "The single-character space is exhausted; longer sequences are sampled. Reference encoders are the trusted base.",
    },
}
