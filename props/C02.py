# Sizing and claim for C02 (validation modes).  Four build variants: the default-mode sentence of the
# property is decided by compiling the harness with each setting of ST_DEFAULT_VALIDATION.
SPEC = {
    "variants": {
        "": [],
        "assume": ["-DST_DEFAULT_VALIDATION=ST::assume_valid", "-DVERIF_CONFIGURED_MODE=0"],
        "subst": ["-DST_DEFAULT_VALIDATION=ST::substitute_invalid", "-DVERIF_CONFIGURED_MODE=1"],
        "check": ["-DST_DEFAULT_VALIDATION=ST::check_validity", "-DVERIF_CONFIGURED_MODE=2"],
    },
    "quick": {"rc_cases": 15000, "rc_procs": 3, "enum": True},
    "thorough": {"rc_cases": 60000, "rc_procs": 4, "enum": True, "fuzz_secs": 240, "fuzz_workers": 12},
    "assumptions": [
        "harness/ref/ref_unicode.h is a correct reading of the tolerated and offending forms listed in the statement",
        "ST_DEFAULT_VALIDATION unset means check_validity (documented in st_utf_conv.h)",
        "sizeof(wchar_t)==4 on this platform; wchar_t entry points are exercised as UTF-32 readers/writers",
    ],
    "claim": {
        "category": "exploration",
        "technique": "bounded-exhaustive class-alphabet strings + mutation-based generation (rapidcheck, libFuzzer) judged against a per-unit reference decoder; differential default-vs-explicit mode over four build configurations",
        "text": "All short strings over class alphabets of each encoding are enumerated and every reader x mode x Latin-1 flag is compared with a per-unit reference decoder (accept/reject decision, exact repaired output, re-validation of repaired output); generated inputs place malformed and tolerated-irregular units between multi-unit neighbours. The harness is compiled under all four settings of ST_DEFAULT_VALIDATION and ~50 entry points per encoding called without a mode must equal the call with the configured mode. For UTF-8 input a string that already holds the raw bytes is validated / repaired from its own storage (s.set(s.c_str()+k, n, mode), s.set(string_view into s, mode)) in all three modes. Texts are appended (+=, +) to receivers that hold never-validated bytes (a dangling lead byte, FF): the text is accepted or rejected exactly as on its own.",
        "level_note": "Exhaustive only for the stated short class-alphabet strings; longer inputs sampled. The reference decoder is the trusted reading of the statement.",
    },
}
