# Sizing and claim for C03 (conversions are total and memory-safe)
SPEC = {
    "quick": {"rc_cases": 10000, "rc_procs": 12, "enum": True},
    "thorough": {"rc_cases": 100000, "rc_procs": 12, "enum": True, "fuzz_secs": 240, "fuzz_workers": 12},
    "assumptions": [
        "harness/ref/ref_unicode.h is a correct reading of the tolerated/offending forms listed in C02 and of the standard encodings",
        "inputs are exact-size malloc blocks and results are read up to data()[size()], so ASan reports any access outside them; UBSan is fatal",
        "inputs are at most 4096 units (the < 256 Mi bound of the statement is not approached)",
        "sizeof(wchar_t)==4: the 16-bit wchar_t branches of the library are not compiled on this platform",
    ],
    "claim": {
        "category": "exploration",
        "technique": "bounded-exhaustive class-alphabet strings + rapidcheck/libFuzzer generated unit strings (mutated, truncated, long) through every conversion route, judged against a per-unit reference decoder for size/terminator/outcome kind under ASan+UBSan",
        "text": "Every conversion entry point (12 pairs, wchar_t aliases, ST::string in/out routes, all overloads, 3 modes, both Latin-1 flags) is run on exhaustively enumerated short strings over class alphabets of each encoding and on generated garbage, mutated, truncated and long inputs held in exact-size heap blocks; each call must end in a buffer of the reference size with a terminator and fully written, or ST::unicode_error - any other exception, assertion, sanitizer report or CPU-time hang is a violation.",
        "level_note": "Exhaustive only for the short class-alphabet strings stated in the evidence; everything longer is sampled. Trusts ASan/UBSan and the reference decoder.",
    },
}
