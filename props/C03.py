# Sizing and claim for C03 (conversions are total and memory-safe)
SPEC = {
    "variants": {"": [], "uchar": ["-funsigned-char"]},   # the second build variant uses an unsigned plain char (-funsigned-char: the ARM / AArch64 / PowerPC default); in the quick tier it runs a reduced number of generated cases and no enumerators
    "quick": {"rc_cases": 10000, "rc_procs": 12, "enum": True, "variant_cfg": {"uchar": {"rc_cases": 5000, "rc_procs": 4, "enum": False}}},
    "thorough": {"rc_cases": 100000, "rc_procs": 12, "enum": True, "fuzz_secs": 240, "fuzz_workers": 12},
    "assumptions": [
        "harness/ref/ref_unicode.h is a correct reading of the tolerated/offending forms listed in C02 and of the standard encodings",
        "inputs are exact-size malloc blocks and results are read up to data()[size()], so ASan reports any access outside them; UBSan is fatal",
        "generated inputs are at most ~1.25 Mi units; over 6000 units only outcome kind, size and terminator are judged; the < 256 Mi bound of the statement is approached only by three fixed probes (expanding single-character inputs whose UTF-8 form exceeds 256 MiB), which end without a verdict when memory is short",
        "sizeof(wchar_t)==4: the 16-bit wchar_t branches of the library are not compiled on this platform",
    ],
    "claim": {
        "category": "exploration",
        "technique": "bounded-exhaustive class-alphabet strings + a grid of long single-unit runs + rapidcheck/libFuzzer generated unit strings (mutated, truncated, long) through every conversion route and public overload, judged against a per-unit reference decoder for size/terminator/outcome kind under ASan+UBSan",
        "text": "Every conversion entry point (12 pairs, wchar_t aliases, ST::string in/out routes, all overloads, 3 modes, both Latin-1 flags) is run on exhaustively enumerated short strings over class alphabets of each encoding and on generated garbage, mutated, truncated and long inputs held in exact-size heap blocks; each call must end in a buffer of the reference size with a terminator and fully written, or ST::unicode_error - any other exception, assertion, sanitizer report or CPU-time hang is a violation. The same rule is applied to the extended entry points (STL/string_view/char8_t/C-string overloads, operator+/+= with C strings and characters, set_validated, literal operators, ST::null, filesystem paths, caller-supplied outputs on pre-filled targets, deprecated overloads, view(), sources that alias the target) and to runs of 256 Ki..1 Mi identical units (well-formed characters of each width, Latin-1 high bytes, stray continuation/lead bytes, unpaired surrogates, values above 10FFFF) at block-multiple lengths and one off. Both tiers run a second build with an unsigned plain char (-funsigned-char; a reduced number of generated cases and no enumerators in the quick tier). Every exact-size input copy starts 0..7 bytes past a 16-byte boundary (a function of the case bytes; 0 for half of the cases) and still ends where its heap block ends.",
        "level_note": "Exhaustive only for the short class-alphabet strings stated in the evidence; everything longer is sampled. Trusts ASan/UBSan and the reference decoder.",
    },
}
