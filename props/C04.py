# Sizing and claim for C04 (ST::string value semantics)
SPEC = {
    "quick": {"rc_cases": 40000, "rc_procs": 12},
    "thorough": {"rc_cases": 80000, "rc_procs": 12, "fuzz_secs": 180, "fuzz_workers": 8},
    "assumptions": [
        "the allocation registry sees every operator new/delete; blocks are attributed to the library when allocated inside a library call",
        "the content of results is not judged here (C07-C09, C01 do that); a result's creation-time bytes are recorded and must stay unchanged",
        "moved-from and self-move-assigned strings hold an unspecified but valid value: the model adopts what they report",
        "replace/operator+ may refuse (ST::unicode_error) a result that is not valid UTF-8; a refused call yields no result object",
        "steps whose result could exceed 64 KiB are skipped (label growth-capped) and a resource bound of the allocation registry ends the case as discarded: growth is legitimate, not a verdict",
        "set / operator= / += / set_validated whose pointer or view argument points into the target itself must store the bytes the argument denoted when the call was made",
    ],
    "claim": {
        "category": "exploration",
        "technique": "stateful model-based generation (rapidcheck byte-decoded histories, libFuzzer) over a pool of strings and result objects; invariant after every step: non-target strings byte- and pointer-identical, exclusive storage ownership via an allocation registry, no leak",
        "text": "Generated histories interleave every kind of const call (about 200 call shapes: every overload family of find/compare/slice/trim/replace/split/convert/format/stream/operator+ incl. char8_t, deprecated, out-parameter and null_t forms, literals, C-string arguments that point into pool strings, and self-referential calls) with mutation, reassignment and destruction of sources and results in both orders; after every step all non-target strings must be byte-identical with an unchanged data pointer, every string, buffer and split piece must live in its own object or an exclusively owned heap block, results must keep their creation-time bytes, and at the end nothing may remain allocated. Extended histories also build strings in 14 unusual pre-states (moved-from, short-after-long then copied/moved/whole-sliced, self-assigned, self-appended, ...) and prefer them as sources, make strings from result-pool buffers by const reference and by rvalue, convert into live caller-supplied buffers, and set/assign/append a string from its own storage (exact expected bytes). The object handed back by to_utf8/16/32/wchar/latin_1 must lie outside every live string object (a reference into the source is a violation).",
        "level_note": "Sampled histories (<= 60 operations over 8 strings + 6 result objects; first byte < 60 decodes with the original operation table, >= 60 with the extended one); exclusive ownership is judged through the allocation registry and ASan.",
    },
}
