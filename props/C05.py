# Sizing and claim for C05 (buffer histories)
SPEC = {
    "quick": {"rc_cases": 40000, "rc_procs": 12, "enum": True, "enum_shards": 16},
    "thorough": {"rc_cases": 120000, "rc_procs": 12, "enum": True, "enum_shards": 16, "fuzz_secs": 180, "fuzz_workers": 8},
    "assumptions": [
        "the allocation registry (harness/common/alloc_track.h) sees every operator new/delete of the process; blocks are attributed to the library when allocated inside a library call",
        "ASan reports reads of released or out-of-bounds storage when the harness reads data()[0..size] of every live buffer after every step",
        "a moved-from or self-move-assigned buffer may hold any value; the model adopts the value it reports",
    ],
    "claim": {
        "category": "exploration",
        "technique": "stateful model-based generation (rapidcheck byte-decoded operation histories, libFuzzer) with a per-object std::basic_string model and an allocation-registry ownership invariant after every step",
        "text": "Generated operation histories over a pool of heap-placed buffers of all four element types are executed against the real objects and a std::basic_string model; after every step each live buffer must report the model's size and elements, be NUL-terminated, and use storage inside its own footprint or an exclusively owned live heap block; invalid/double frees and leaks are detected by the allocation registry and ASan. Histories are shrunk as one value.",
        "level_note": "Sampled histories (<= 80 operations, 6 objects, lengths in 8 classes around the observed small-buffer limit); absence beyond the explored histories is not established.",
    },
}
