# Sizing and claim for C05 (buffer histories)
SPEC = {
    "quick": {"rc_cases": 40000, "rc_procs": 12, "enum": True, "enum_shards": 16},
    "thorough": {"rc_cases": 120000, "rc_procs": 12, "enum": True, "enum_shards": 16, "fuzz_secs": 180, "fuzz_workers": 8},
    "assumptions": [
        "the allocation registry (harness/common/alloc_track.h) sees every operator new/delete of the process; blocks are attributed to the library when allocated inside a library call",
        "ASan reports reads of released or out-of-bounds storage when the harness reads data()[0..size] of every live buffer after every step",
        "a moved-from or self-move-assigned buffer may hold any value; the model adopts the value it reports",
        "elements left unwritten after allocate(n) are indeterminate: the model adopts them; after allocate(n, fill) every element must equal fill",
        "compare / == / != / < are judged against std::basic_string::compare of the models (same char_traits), which is the order C06 states for buffers",
    ],
    "claim": {
        "category": "exploration",
        "technique": "stateful model-based generation (rapidcheck byte-decoded operation histories, libFuzzer) with a per-object std::basic_string model and an allocation-registry ownership invariant after every step",
        "text": "Generated operation histories over a pool of heap-placed buffers of all four element types are executed against the real objects and a std::basic_string model; after every step each live buffer must report the model's size and elements, be NUL-terminated, and use storage inside its own footprint or an exclusively owned live heap block; invalid/double frees and leaks are detected by the allocation registry and ASan. Histories are shrunk as one value. Extended histories (80 % of the cases) add construction from null_t, (nullptr,0), the four ST_*_LITERAL macros and the five _stbuf literal operators (15 literals with embedded / trailing NULs around both limits: size must be the literal's length), assignment from null_t and temporaries, (count,fill) and allocate(n,fill) with every fill value incl. 0, allocate(n) with partial writes, writes through every non-const accessor and iterator, std::swap, the chain a=move(b); b=a; a=a; b=move(b), 3..6-step shrink/grow histories, compare/compare_n/==/!=/</null_t comparisons against pool members and freshly built buffers (equality depends on current contents only), view(start,length), all iterator pairs, c_str(substitute); a deterministic enumerator runs every (element type, pre-state of 18, action of 16, length class, fill) combination, every chain over 8x8 length classes, every shrink/grow method triple and every literal form as directed cases.",
        "level_note": "Sampled histories (<= 80 operations, 6 objects, lengths in 8 classes around the observed small-buffer limit) plus about 234 000 enumerated directed histories (pre-state x action x length x fill, chains, shrink/grow triples, literals); absence beyond the explored histories is not established.",
    },
}
