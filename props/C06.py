# Sizing and claim for C06 (see props/__init__.py)
SPEC = {
        "quick": {"rc_cases": 100000, "rc_procs": 8, "enum": True},
        "thorough": {"rc_cases": 600000, "rc_procs": 8, "enum": True},
        "claim": {
            "category": "exploration",
            "technique": "bounded-exhaustive pairs/triples over boundary alphabets for all four unit types + rapidcheck triples of close strings + huge declared lengths through the static pointer+length forms, against a reference unsigned lexicographic order",
            "text": "Every ordered pair and every triple of the strings of length <= 3 over boundary units (NUL, A, a, 80, FF; wide: 7FFF/8000/FFFF/7FFFFFFF/80000000/FFFFFFFF), every pair of one-byte strings, and generated triples of close strings up to 43 units are compared through every compare/compare_n/operator/const T*/case-insensitive form of ST::string and buffer<T>; the sign must equal the reference order, case-insensitive forms must be zero exactly for fold-equal operands, antisymmetric, transitive and mutually consistent; equal strings with different construction histories must hash equal; to_upper/to_lower must equal a per-byte ASCII reference. Static compares are also called with declared lengths up to SIZE_MAX over exact-size blocks of the units that may be read. Short strings are exhausted over the listed alphabets; longer ones are sampled.",
            "level_note": "Trusts harness/ref/ref_compare.h (50 lines) as the reading of the statement and ASan for reads beyond the exact-size blocks (wmemcmp, used by std::char_traits<wchar_t>, is not intercepted by ASan, so over-reads of wchar_t operands are not observed). The sign of case-insensitive comparison between inequivalent strings is deliberately not compared with a fixed reference (only preorder laws and mutual agreement). wchar_t units are kept <= 0x7FFFFFFF.",
        },
        "assumptions": ["harness/ref/ref_compare.h is a correct reading of 'bytewise (unsigned) lexicographic order, a proper prefix sorting first' and of ASCII folding",
                        "for wchar_t/char16_t/char32_t buffers the stated order is the element order of std::char_traits<T>::compare; wchar_t values are kept <= 0x7FFFFFFF so that signed and unsigned element order coincide",
                        "ASan reports reads beyond the exact-size blocks for char/char16_t/char32_t operands"],
    }
