# Sizing and claim for C07 (see props/__init__.py)
SPEC = {
        "quick": {"rc_cases": 200000, "rc_procs": 8, "enum": True},
        "thorough": {"rc_cases": 1500000, "rc_procs": 8, "enum": True, "fuzz_secs": 90, "fuzz_workers": 6},
        "claim": {
            "category": "exploration",
            "technique": "bounded-exhaustive enumeration + rapidcheck/libFuzzer generated (haystack, needle, start, limit) cases against a naive reference scan, all needle overloads compared",
            "text": "Every haystack of length <= 6 over {a,b,A} and over {a,NUL,A}, with every needle of length 1..3 and every start/limit in 0..len+1 and SIZE_MAX, is searched in both case modes through the char, const char*, (pointer,length) and ST::string forms of find, find_last, contains, starts_with and ends_with and compared with a naive scan; generated haystacks up to 40 bytes (all small-string size classes, NUL, multi-byte, raw bytes) with needles cut from the haystack, case-flipped, altered, straddling the end, equal to or longer than the haystack, empty and null extend this to long and non-ASCII text. Short-string behaviour over the three-letter alphabets is exhausted; everything else is sampled.",
            "level_note": "Trusts harness/ref/ref_text.h (naive scans with an ASCII-only fold) as the reading of the statement; haystacks longer than 40 bytes and needles longer than 41 bytes are not generated; const char* overloads are judged on the needle truncated at its first NUL.",
        },
        "assumptions": ["reference scans in harness/ref/ref_text.h are a correct reading of the statement",
                        "a null needle is modelled as an empty one (the code tests for null explicitly); a null pointer is only passed with length 0",
                        "ASan reports reads outside the exact-size needle copies and outside heap-allocated haystacks"],
    }
