# Sizing and claim for C08 (see props/__init__.py)
SPEC = {
        "quick": {"rc_cases": 45000, "rc_procs": 8, "enum": True},
        "thorough": {"rc_cases": 400000, "rc_procs": 8, "enum": True, "fuzz_secs": 90, "fuzz_workers": 6},
        "claim": {
            "category": "exploration",
            "technique": "rapidcheck/libFuzzer generated (string, start, count, n, trim set, separator) cases + bounded-exhaustive positions against reference slicing with non-wrapping arithmetic; allocation registry budget; all separator overloads compared",
            "text": "For strings of every length 0..18 every start around the string and at both ends of the signed range is combined with every count around the string, within len+3 of SIZE_MAX and within 2 of SIZE_MAX-start, and every n up to 2*len+2 and SIZE_MAX for left/right; generated subjects up to 66 bytes (all small-string size classes, NUL, multi-byte, raw bytes) are sliced by substr, left, right, the three trims (default, explicit, covering and empty sets) and before_first/after_first/before_last/after_last with separators of length 0, 1, 2+ in char, const char* and ST::string form in both case modes, and compared with reference slicing; before + matched separator + after == s is checked on the library's own results, and any allocation above 1 GiB or exception inside a call is a violation. Positions are exhausted for short strings; contents and separators are sampled.",
            "level_note": "Trusts harness/ref/ref_text.h; a start below -size is read as clipped to the beginning before the count is applied (upstream test: \"AAAxxxx\".substr(-10,3)==\"AAA\"); const char* separators and trim sets cannot contain NUL; the allocation budget is 1 GiB per request, not size+1.",
        },
        "assumptions": ["reference slicing in harness/ref/ref_text.h is a correct reading of the statement",
                        "an oversized allocation is one above 1 GiB requested while a library call executes (harness/common/alloc_track.h)",
                        "ASan reports reads outside heap-allocated strings; reads that stay inside the in-object small-string buffer are only caught through wrong results"],
    }
