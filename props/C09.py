# Sizing and claim for C09 (see props/__init__.py)
SPEC = {
        "quick": {"rc_cases": 30000, "rc_procs": 8, "enum": True},
        "thorough": {"rc_cases": 250000, "rc_procs": 8, "enum": True, "fuzz_secs": 90, "fuzz_workers": 6},
        "claim": {
            "category": "exploration",
            "technique": "bounded-exhaustive short subjects + rapidcheck/libFuzzer generated (subject, pattern, max_splits, replacement, delimiters) cases against a left-to-right non-overlapping reference scan; allocation budget and CPU-time watchdog for termination; all overloads compared",
            "text": "Every subject of length <= 5 over {a,b,NUL} is split, tokenized and replaced with every pattern of length 0..2, four replacements and max_splits in {0,1,2,SIZE_MAX}; generated subjects up to 60 bytes (all small-string size classes, NUL, multi-byte, raw bytes) with empty, single-byte, self-overlapping, adjacent, trailing, whole-subject, over-long, multi-byte and half-character patterns, replacements that shrink or grow the result across the small-string limit, and max_splits around the number of occurrences and at SIZE_MAX, go through split (char, const char*, ST::string), tokenize and the four replace overloads in both case modes. Piece lists, piece counts, the reassembly of the original from pieces and separator, tokens, replace results and their length formula are compared with the reference; a call that exceeds the allocation budget, requests more than 64 MiB or runs into the CPU-time watchdog counts as non-terminating. Short subjects are exhausted; longer ones are sampled.",
            "level_note": "Trusts harness/ref/ref_text.h; the library has no join(), the reference joins the library's pieces; const char* arguments are judged cut at their first NUL; ST::unicode_error is accepted instead of the model result only when the re-validated result (replace, split(const char*) with a non-ASCII splitter) or a const char* argument of replace is not structurally valid UTF-8; split(char) is exercised for 0x01..0x7F only and a null splitter is never passed.",
        },
        "assumptions": ["reference scans in harness/ref/ref_text.h are a correct reading of the statement",
                        "termination is judged by the allocation registry (10^6 allocations, 1 GiB per request), a 64 MiB cap on single requests for these <= 66-byte subjects, and the engine's 20 s CPU-time watchdog - never by wall-clock",
                        "the default validation (ST_DEFAULT_VALIDATION unset = check_validity) is in force"],
    }
