# Sizing and claim for C10 (see props/__init__.py)
SPEC = {
        "quick": {"rc_cases": 150000, "rc_procs": 12, "enum": True},
        "thorough": {"rc_cases": 400000, "rc_procs": 8, "enum": True, "fuzz_secs": 240, "fuzz_workers": 8},
        "claim": {
            "category": "exploration",
            "technique": "placeholder",
            "text": "placeholder After every ST::printf, however it ended, the FILE* is probed from a second thread (a stdio lock left behind is a violation); errno is preset to 0 / ERANGE / EINVAL / EDOM before every call; any ST_ASSERT is judged by the reference interpreter's prediction, never by its message. Enumerated: one specifier of 18..250 flag bytes (six kinds of runs incl. pad pairs with control / high pad bytes) x ten endings x three argument lists. The process locale alternates between \"C\" and \"C.utf8\".",
            "level_note": "placeholder",
        },
        "assumptions": [],
    }
