# Sizing and claim for C10 (see props/__init__.py)
SPEC = {
        "quick": {"rc_cases": 150000, "rc_procs": 12, "enum": True},
        "thorough": {"rc_cases": 400000, "rc_procs": 8, "enum": True, "fuzz_secs": 240, "fuzz_workers": 8},
        "claim": {
            "category": "exploration",
            "technique": "placeholder",
            "text": "placeholder",
            "level_note": "placeholder",
        },
        "assumptions": [],
    }
