# Sizing and claim for C11 (see props/__init__.py)
SPEC = {
    "variants": {"": [], "uchar": ["-funsigned-char"]},   # the second build variant uses an unsigned plain char (-funsigned-char: the ARM / AArch64 / PowerPC default); in the quick tier it runs a reduced number of generated cases and no enumerators
        "quick": {"rc_cases": 100000, "rc_procs": 14, "enum": True, "variant_cfg": {"uchar": {"rc_cases": 50000, "rc_procs": 4, "enum": False}}},
        "thorough": {"rc_cases": 250000, "rc_procs": 16, "enum": True},
        "claim": {
            "category": "exploration",
            "technique": "bounded-exhaustive integer flag sweep + rapidcheck-generated multi-field format calls compared byte for byte with an independent interpreter of the format mini-language",
            "text": "Every combination of alignment, pad (none, custom, zero flag, '_0'), six widths around the natural length, '#', '+', digit class and two part orders is formatted for  errno is preset to 0 / ERANGE / EINVAL / EDOM before every format call (a function of the case bytes). Both tiers run a second build with an unsigned plain char (-funsigned-char; a reduced number of generated cases and no enumerators in the quick tier)."
                    "0, +-1, +-9, +-10, +-255, radix boundaries, min and max of all 15 integer and character types (about 0.86 M typed ST::format calls, complete in both tiers) and compared "
                    "with the reference rendering; generated calls mix 1-5 fields (sequential and &N), brace escapes, non-ASCII literals and 1-5 arguments of 32 types with widths and "
                    "precisions in every relation to the natural length, {c} on values inside and outside 0..10FFFF, through both ST::format and ST::format(assume_valid). The flag "
                    "sweep is exhausted for the listed values; multi-field strings, other values and text arguments are sampled. About one generated case in nine is an extended call: up to 12 "
                    "arguments and 16 fields (&N up to 12, one argument rendered by several fields), typed 6/7/12-argument signatures (lvalues and rvalues), text with embedded U+0000 in every "
                    "string / view / C-string form, ST buffers and ST::null, std::filesystem::path, user-defined format_type overloads (ST::format_string with every default alignment, char8_t "
                    "overload, chained formatters, deprecated macros), {c} on ASCII char8_t, items without effect ('+', '#', class letters on text and {c}; precision on numbers), padding runs "
                    "up to 16385 (every run B-1, B, B+1 for B = 32..16384 is enumerated in 8 layouts), literal runs up to 20000 bytes, text arguments up to 4097 characters, calls without fields "
                    "or arguments; each of them through ST::format with no / each validation argument, the _stfmt literal operator (six real literals included), ST::format_latin_1 for ASCII "
                    "renderings and the call with the arguments' real C++ types.",
            "level_note": "Trusts harness/ref/ref_format.h (interpreter written from the property statement, digits by std::to_chars) as the reading of the specification; width and "
                          "precision are counted in UTF-8 bytes as the code does; floats are out of scope (C13); specifiers with contradictory or repeated items ('<' with '>', '_x' with "
                          "'0', two widths) are not generated, so 'last one wins' is not checked; {c} on char8_t (a code unit, copied verbatim) is generated only for values below 0x80, where the unit is the "
                          "character; widths <= 400 in the base generator and <= natural + 16385 in extended calls; a user formatter's default alignment is read as 'side of the padding when the field names "
                          "none'; ST::format(substitute_invalid, ..) is compared byte for byte only when the rendering is well-formed UTF-8 (the repaired text belongs to C02), ST::format_latin_1 only for "
                          "all-ASCII renderings (the transcoding belongs to C17); std::complex and floating-point arguments are out of scope (C13).",
        },
        "assumptions": ["harness/ref/ref_format.h is a correct reading of the C11 statement (width and precision count UTF-8 bytes; a precision on an integer field has no effect)",
                        "the custom-formatter bridge used for argument lists of 2-5 entries (fg::LibArg -> ST::format_type of the real type) renders like passing the value directly; "
                        "single-argument calls and the whole sweep pass the value in its own C++ type",
                        "ASan/UBSan report every out-of-bounds access to the exact-size format string and argument blocks",
                        "harness/ref/ref_format_ext.h (user-defined formatters: right-default text, two chained values, verbatim literal) is a correct reading of what those formatters ask the library to do",
                        "std::filesystem::path keeps the bytes it was constructed from (POSIX); a case where u8string() differs from them is discarded"],
    }
