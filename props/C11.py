# Sizing and claim for C11 (see props/__init__.py)
SPEC = {
        "quick": {"rc_cases": 100000, "rc_procs": 14, "enum": True},
        "thorough": {"rc_cases": 250000, "rc_procs": 16, "enum": True},
        "claim": {
            "category": "exploration",
            "technique": "bounded-exhaustive integer flag sweep + rapidcheck-generated multi-field format calls compared byte for byte with an independent interpreter of the format mini-language",
            "text": "Every combination of alignment, pad (none, custom, zero flag, '_0'), six widths around the natural length, '#', '+', digit class and two part orders is formatted for "
                    "0, +-1, +-9, +-10, +-255, radix boundaries, min and max of all 15 integer and character types (about 0.86 M typed ST::format calls, complete in both tiers) and compared "
                    "with the reference rendering; generated calls mix 1-5 fields (sequential and &N), brace escapes, non-ASCII literals and 1-5 arguments of 32 types with widths and "
                    "precisions in every relation to the natural length, {c} on values inside and outside 0..10FFFF, through both ST::format and ST::format(assume_valid). The flag "
                    "sweep is exhausted for the listed values; multi-field strings, other values and text arguments are sampled.",
            "level_note": "Trusts harness/ref/ref_format.h (interpreter written from the property statement, digits by std::to_chars) as the reading of the specification; width and "
                          "precision are counted in UTF-8 bytes as the code does; floats are out of scope (C13); specifiers with contradictory or repeated items ('<' with '>', '_x' with "
                          "'0', two widths) are not generated, so 'last one wins' is not checked; {c} on char8_t (a code unit, copied verbatim) is not generated; widths and precisions <= 400.",
        },
        "assumptions": ["harness/ref/ref_format.h is a correct reading of the C11 statement (width and precision count UTF-8 bytes; a precision on an integer field has no effect)",
                        "the custom-formatter bridge used for argument lists of 2-5 entries (fg::LibArg -> ST::format_type of the real type) renders like passing the value directly; "
                        "single-argument calls and the whole sweep pass the value in its own C++ type",
                        "ASan/UBSan report every out-of-bounds access to the exact-size format string and argument blocks"],
    }
