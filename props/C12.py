# Sizing and claim for C12 (see props/__init__.py)
SPEC = {
        "quick": {"rc_cases": 220000, "rc_procs": 10, "enum": True},
        "thorough": {"rc_cases": 1000000, "rc_procs": 8, "enum": True, "fuzz_secs": 120, "fuzz_workers": 8},
        "claim": {
            "category": "exploration",
            "technique": "bounded-exhaustive enumeration + rapidcheck/libFuzzer generated values and byte strings, compared with std::to_chars and with strtol/strtoll/strtoul/strtoull called by the harness, under ASan+UBSan",
            "text": "Every short and unsigned short value in every base 2..36 and both letter cases, and a boundary table (0, +-1, min, min+1, max, max-1, 2^k+-1, b^k+-1) of int/long/long long and their unsigned counterparts in every base, is printed with from_int/from_uint and compared with std::to_chars; ST::format {}/{d}/{x}/{X}/{o}/{b} and string_stream<< must give the same text for bases 10/16/8/2; every to_* member wide enough must read the text back with ok and full_match. Undefined behaviour (signed overflow, out-of-bounds index) stops the run through UBSan/ASan. For the parsing direction every byte string up to length 5 (quick) / 6 (thorough) over a 16-symbol alphabet (digits, letters, x/X, signs, blank, tab, NUL, 0xFF) and generated strings up to 40 bytes (structured sign/prefix/digit/tail shapes, magnitudes next to 2^15..2^65, raw bytes) are parsed in bases 0 and 2..36 by all eight to_* members, with and without conversion_result, and compared with the corresponding strto* call narrowed by static_cast and with ok <=> consumed>0, full_match <=> consumed==size. 16-bit values and the short-string space are exhausted; wider values and longer strings are sampled.",
            "level_note": "Trusts std::to_chars as the definition of the canonical digit string and the platform's strtol family as the definition of the parsed value (the property names it); values of 32/64-bit types outside the boundary table are sampled (random 64-bit patterns), strings longer than 40 bytes are not generated.",
        },
        "assumptions": ["std::to_chars (libstdc++) yields the canonical digit string in bases 2..36",
                        "the harness's own strtol/strtoll/strtoul/strtoull calls on a NUL-terminated copy of the bytes define the expected value and consumed length",
                        "UBSan (-fno-sanitize-recover) and ASan report undefined arithmetic and out-of-bounds accesses in the printers"],
    }
