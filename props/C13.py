# Sizing and claim for C13 (see props/__init__.py)
SPEC = {
        "quick": {"rc_cases": 200000, "rc_procs": 8, "enum": True},
        "thorough": {"rc_cases": 600000, "rc_procs": 8, "enum": True, "fuzz_secs": 90, "fuzz_workers": 6},
        "claim": {
            "category": "exploration",
            "technique": "directed-table enumeration + rapidcheck/libFuzzer generated values, format specs and byte strings, compared with snprintf / strtof / strtod called by the harness, under ASan+UBSan with ST_ASSERT turned into an exception",
            "text": "About 16,500 directed doubles and 1,600 directed floats (+-0, +-inf, NaNs, min/max normal and subnormal, every power of ten and of two with both neighbours, rounding and notation-switch cases) and random 64/32-bit patterns are rendered by ST::format in every notation {default,f,e,E}, with precisions from absent to 400, with and without '+', with widths below, at and above the rendering's length up to 300, both alignments and 24 pad characters, flags in random order; the result must equal snprintf(\"%[+][.P]{g,f,e,E}\") of the same value followed by the padding rule. from_float/from_double (all six letters efgEFG and the default) and string_stream<< must equal snprintf %letter / %g. to_float/to_double, with and without conversion_result, are compared with strtof/strtod (bit-equal or both NaN; ok <=> consumed>0, full_match <=> consumed==size) on printed values, structured decimal/hex/inf/nan spellings with extreme exponents, decimals just above float rounding midpoints, and raw bytes including NUL. Any assertion, abort or sanitizer report is a violation. The value space is sampled, not exhausted.",
            "level_note": "Trusts the platform's snprintf/strtof/strtod as the definition (the property names them); precisions above 400 and widths above 300 (+ the rendering's own length) are not generated; doubles outside the directed table are sampled by random bit patterns.",
        },
        "assumptions": ["the harness's own snprintf calls (sized by snprintf(nullptr,0,...)) define the expected rendering, in the C locale",
                        "the harness's own strtof/strtod calls on a NUL-terminated copy of the bytes define the expected value and consumed length",
                        "a failed ST_ASSERT reaches the harness as verif::assertion_failure through the ST_VERIF_HOOKS hook; ASan/UBSan report out-of-bounds buffer writes"],
    }
