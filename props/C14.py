# Sizing and claim for C14 (see props/__init__.py)
SPEC = {
    "variants": {"": [], "uchar": ["-funsigned-char"]},   # the second build variant uses an unsigned plain char (-funsigned-char: the ARM / AArch64 / PowerPC default); in the quick tier it runs a reduced number of generated cases and no enumerators
        "quick": {"rc_cases": 20000, "rc_procs": 8, "enum": True, "variant_cfg": {"uchar": {"rc_cases": 10000, "rc_procs": 3, "enum": False}}},
        "thorough": {"rc_cases": 60000, "rc_procs": 8, "enum": True, "fuzz_secs": 20, "fuzz_workers": 4},
        "claim": {
            "category": "exploration",
            "technique": "bounded-exhaustive enumeration + rapidcheck generated arrays against an arithmetic RFC 4648 reference and decode/encode round trip",
            "text": "Every 3-byte group (2^24), every 1- and 2-byte tail, alone and after a prefix group, is encoded and decoded through all four codec entry points and compared with an independent arithmetic RFC 4648/hex reference; generated arrays up to 400 bytes cover every length class. The per-group behaviour is exhausted; longer inputs are sampled. Both tiers run a second build with an unsigned plain char (-funsigned-char; a reduced number of generated cases and no enumerators in the quick tier). Enumerated: lengths c-3..c+4 for c in {3072, 6144, 9216, 12288, 18432, 27648, 36864, 4096, 8192, 16384, 32768, 49152, 65536, 98304} with never-zero content.",
            "level_note": "Trusts harness/ref/ref_codecs.h (45 lines, table-free) as the reading of RFC 4648, and ASan/UBSan for memory errors; arrays longer than 400 bytes are not generated.",
        },
        "assumptions": ["reference encoders in harness/ref/ref_codecs.h are a correct reading of RFC 4648", "ASan/UBSan report every out-of-bounds access to the exact-size input and output blocks"],
    }
