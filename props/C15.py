# Sizing and claim for C15 (see props/__init__.py)
SPEC = {
        # a second build in which plain char is unsigned (the default on ARM / AArch64 / PowerPC Linux): table lookups and range
        # tests written for a signed char must keep rejecting bytes >= 0x80
        "variants": {"": [], "uchar": ["-funsigned-char"]},
        "quick": {"rc_cases": 100000, "rc_procs": 6, "enum": True},
        "thorough": {"rc_cases": 150000, "rc_procs": 8, "enum": True, "fuzz_secs": 180, "fuzz_workers": 16},
        "claim": {
            "category": "exploration",
            "technique": "bounded-exhaustive enumeration over class alphabets and all byte values per group position + rapidcheck corrupted encodings + libFuzzer raw texts, against the statement's acceptance predicate with exact-size (ASan) and canary-framed output buffers",
            "text": "Every base64 string of length <= 8 over class representatives, every byte value (and every pair of byte values) at every position of final and non-final base64 groups, all 65536 hex pairs and all short hex class strings including odd lengths are decoded through the allocating, null-output and caller-buffer forms with every output_size from 0 to one above the implied length; longer inputs are valid encodings with 0-2 corruptions and coverage-guided raw texts. Accept/reject, return value, decoded bytes and every byte around the promised length are compared with a reference written from the property text. Short-group behaviour is exhausted over the listed alphabets; long inputs are sampled. Every text is also decoded with eight output_size values far above anything that exists (SIZE_MAX, SIZE_MAX-1, 2^63-1, 2^63, 2^32, 2^32-1, 2^31, 2^31-1) over an exact-size block: decision and bytes written must not depend on them.",
            "level_note": "Trusts harness/ref/ref_codecs.h (acceptance predicates and arithmetic RFC 4648 decoder) as the reading of the statement, and ASan for writes beyond an exact-size block (the canary frame detects overruns of up to 24 bytes without it). Texts longer than about 420 characters are not generated.",
        },
        "assumptions": ["acceptance predicates and decoders in harness/ref/ref_codecs.h are a correct reading of the statement and of RFC 4648",
                        "the whole check runs twice: with the platform's signed plain char and with -funsigned-char",
                        "ASan reports every access beyond the exact-size input and output blocks; overruns of up to 24 bytes are also seen by the canary frame without ASan"],
    }
