# Sizing and claim for C16 (string_stream histories)
SPEC = {
    "quick": {"rc_cases": 50000, "rc_procs": 12},
    "thorough": {"rc_cases": 100000, "rc_procs": 12, "fuzz_secs": 180, "fuzz_workers": 8},
    "assumptions": [
        "the allocation registry sees every operator new/delete; blocks are attributed to the library when allocated inside a library call",
        "integers are modelled with std::to_string, floating point with snprintf(\"%g\"), wide text with the reference UTF-8 encoder",
        "self-move-assignment of a stream is outside the property's quantifier and is not generated",
        "termination is judged by the CPU-time watchdog (20 s per case) plus 3x replay, never by wall-clock",
    ],
    "claim": {
        "category": "exploration",
        "technique": "stateful model-based generation (rapidcheck byte-decoded histories, libFuzzer) against a std::string model per stream, with allocation-registry ownership/leak invariants after every step",
        "text": "Generated histories over three heap-placed streams append text of every supported kind with sizes aimed at the in-object capacity and each doubling boundary, truncate/erase to every relation of n to size, and move streams in every storage mode; after every step size() and raw_buffer() must equal a byte-string model, to_string() must validate/transcode those bytes, a moved-from stream must be empty and usable, and the registry must show exclusive ownership, no double free and no leak.",
        "level_note": "Sampled histories (<= 80 operations, total size <= ~64 KiB per stream). Absence beyond the explored histories is not established.",
    },
}
