# Sizing and claim for C16 (string_stream histories)
SPEC = {
    "quick": {"rc_cases": 50000, "rc_procs": 12},
    "thorough": {"rc_cases": 100000, "rc_procs": 12, "fuzz_secs": 180, "fuzz_workers": 8},
    "assumptions": [
        "the allocation registry sees every operator new/delete; blocks are attributed to the library when allocated inside a library call",
        "integers are modelled with std::to_string, floating point with snprintf(\"%g\"), wide text with the reference UTF-8 encoder",
        "short / unsigned short / wchar_t / char16_t / char32_t / char8_t / bool have no operator<< of their own and are written by the int / unsigned overload after integral promotion (checked at compile time; a type that gets its own overload is no longer generated)",
        "ST buffers and ST::null reach the stream through their implicit conversion to ST::string; std::filesystem::path keeps the bytes it was built from (POSIX)",
        "to_string(true, substitute_invalid) on ill-formed content is judged by C02's reference (ref_unicode.h: each offending byte becomes U+FFFD, well-formed and tolerated sequences are kept)",
        "self-move-assignment of a stream is outside the property's quantifier and is not generated",
        "termination is judged by the CPU-time watchdog (20 s per case) plus 3x replay, never by wall-clock",
    ],
    "claim": {
        "category": "exploration",
        "technique": "stateful model-based generation (rapidcheck byte-decoded histories, libFuzzer) against a std::string model per stream, with allocation-registry ownership/leak invariants after every step",
        "text": "Generated histories over three heap-placed streams append text of every supported kind with sizes aimed at the in-object capacity and each doubling boundary, truncate/erase to every relation of n to size, and move streams in every storage mode; after every step size() and raw_buffer() must equal a byte-string model, to_string() must validate/transcode those bytes, a moved-from stream must be empty and usable, and the registry must show exclusive ownership, no double free and no leak. Two histories in three use the extended operation table: char8_t text, views of every width over unterminated exact-size blocks, wide / UTF-16 / UTF-32 text of 255-4096 code points and with embedded U+0000, ST buffers, std::filesystem::path, every null / zero-length form, append_char up to 65535, numbers of every type written at exactly capacity-k bytes (k = 0..21, capacities 256-8192), promoted integer types, truncate/erase followed by an append landing on 256..4096 (and one off), to_string with every validation mode in both readings, move-assignment chains, streams moved from and refilled repeatedly, assignment from temporaries, chained inserters, and appends whose growth allocation is made to fail (the stream's reported state is adopted and must remain a valid stream for the rest of the history). Enumerated on top: streams of 2^k-1, 2^k, 2^k+1 bytes for k = 16..23 (25 in the thorough tier) fed at once / in 64 KiB / in 4 KiB pieces, then one append of 1 byte, 2^k, 2^(k+1)+3, 3 MiB+7, 5 MiB or an append_char of 300, then truncate, erase, append and a move, compared byte for byte with a std::string model. Operation 20 inserts ST::string values holding bytes that are not valid UTF-8; C allocator calls of library code are tracked like operator new.",
        "level_note": "Sampled histories (<= 80 operations, total size <= ~64 KiB per stream). Absence beyond the explored histories is not established.",
    },
}
