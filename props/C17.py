# Sizing and claim for C17 (all output sinks agree; stream insertion / extraction)
SPEC = {
    "variants": {"": [], "uchar": ["-funsigned-char"]},   # the second build variant uses an unsigned plain char (-funsigned-char: the ARM / AArch64 / PowerPC default); in the quick tier it runs a reduced number of generated cases and no enumerators
    "quick": {"rc_cases": 20000, "rc_procs": 12, "enum": True, "variant_cfg": {"uchar": {"rc_cases": 10000, "rc_procs": 4, "enum": False}}},
    "thorough": {"rc_cases": 150000, "rc_procs": 14, "enum": True, "fuzz_secs": 180, "fuzz_workers": 8},
    "assumptions": [
        "FILE* output is captured with open_memstream, stream output with std::basic_ostringstream of the four character types",
        "the wide-sink clause is judged only for calls ST::format (default validation) accepts, the domain the statement names; for calls it rejects with unicode_error the wide sinks may write or throw unicode_error",
        "extraction is compared only while the std::basic_string extraction succeeds; the value an ST::string holds after a failed extraction is not part of the statement",
        "libstdc++ has no ctype facet for char16_t/char32_t: extraction from such streams fails, and must fail identically for both string types",
        "open finding F17-1 (a piece boundary inside a multi-byte character) is excluded by construction from the wide-sink comparison and counted (excluded_known)",
    ],
    "claim": {
        "category": "exploration",
        "technique": "differential testing over generated format calls (rapidcheck byte-decoded structured generator, libFuzzer, a directed sweep): nine sinks compared with each other, with the reference rendering and with reference UTF-16/32 / Latin-1 transcoders; stream insertion against reference transcoding; stream extraction differentially against std::basic_string extraction on an identical stream",
        "text": "Each generated format call (fields of every kind, literals with multi-unit characters, padding up to 400 so runs cross internal buffers, floating point, damaged calls) is sent to ST::format (default and assume_valid), the _stfmt literal, ST::printf(FILE*), ST::writef on char, wchar_t, char16_t and char32_t string streams and ST::format_latin_1; narrow sinks must be byte-identical and equal the modelled rendering, format_latin_1 must equal the reference Latin-1->UTF-8 transcoding, wide sinks the reference UTF-16/32 transcoding, and rejected calls must be rejected alike. ST::string values of every size class are inserted into the four stream types and compared with reference transcodings; token sequences (with width(), noskipws, std::ws and ill-formed units) are extracted in lock-step with std::basic_string extraction and must store the same token or throw ST::unicode_error exactly when the token fails the default validation, with equal stream state. After every ST::printf, however it ended, the FILE* is probed from a second thread (a stdio lock left behind is a violation). Both tiers run a second build with an unsigned plain char (-funsigned-char; a reduced number of generated cases and no enumerators in the quick tier). One case in eight hands ST::printf a FILE* whose error indicator is already set; every case also formats an argument of a user-defined type whose format_type() itself calls ST::format and compares with the pieces formatted one by one (ST::format, ST::printf, ST::writef).",
        "level_note": "Sampled calls and streams; the directed sweep is complete over its stated grid only. One open finding (F17-1) is excluded by construction and reported as KNOWN-FINDING.",
    },
}
