# Sizing and claim for C18 (failed operations leave target and arguments unchanged)
SPEC = {
    "variants": {"": [], "uchar": ["-funsigned-char"]},   # the second build variant uses an unsigned plain char (-funsigned-char: the ARM / AArch64 / PowerPC default); in the quick tier it runs a reduced number of generated cases and no enumerators
    "quick": {"rc_cases": 20000, "rc_procs": 12, "variant_cfg": {"uchar": {"rc_cases": 10000, "rc_procs": 4, "enum": False}}},
    "thorough": {"rc_cases": 100000, "rc_procs": 12, "fuzz_secs": 180, "fuzz_workers": 8},
    "assumptions": [
        "the property is conditional on the operation throwing one of the four named exception types; whether an input must be rejected is C02/C10/C15's business",
        "the allocation registry sees every operator new/delete; a failing step must leave the number of live library blocks unchanged",
        "objects are compared byte-for-byte with a model taken after the last successful step; ASan reports reads of released storage",
    ],
    "claim": {
        "category": "exploration",
        "technique": "stateful generation (rapidcheck byte-decoded histories, libFuzzer) mixing designed-to-fail operations with successful ones; after each throwing step all objects are compared with their pre-step model and the allocation registry must be unchanged",
        "text": "Generated histories over strings, buffers of all widths and streams in both storage modes apply about 30 kinds of operations built to throw (malformed text in every width through set/=/+=/+/constructors, invalid code points, Latin-1 range, corrupted hex/base64, bad format strings, malformed wide text into streams, to_string on invalid bytes, at() out of range) between successful ones; after every throwing step the target, lvalue and rvalue arguments and all bystanders must be byte-identical to before, nothing may be leaked or freed twice, and the objects keep being used. Both tiers run a second build with an unsigned plain char (-funsigned-char; a reduced number of generated cases and no enumerators in the quick tier). A leak is a live block that none of the objects owns (a failed insertion may have grown an object's capacity).",
        "level_note": "Sampled histories (<= 50 steps, 12 objects). Only exceptions of the four named types are in scope; std::bad_alloc is C19.",
    },
}
