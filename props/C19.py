# Sizing and claim for C19 (allocation failure, injected faults enumerated)
SPEC = {
    "quick": {"rc_cases": 3000, "rc_procs": 8, "enum": True},
    "thorough": {"rc_cases": 6000, "rc_procs": 8, "enum": True, "fuzz_secs": 0},
    "assumptions": [
        "only failures of operator new are injected; allocations made inside libc (snprintf) are not failed",
        "iostream insertion/extraction is left out: the standard stream layer turns exceptions into badbit",
        "the allocation registry sees every operator new/delete of the process; the k-th allocation made while a library call executes is the injected fault",
        "a noexcept function that lets std::bad_alloc escape calls std::terminate; the engine saves the case from its SIGABRT handler and the driver reports it",
    ],
    "claim": {
        "category": "fault_enumeration",
        "technique": "enumerated fault injection: for every operation of a ~100-entry catalogue x size classes x storage modes, each allocation the operation performs is made to throw in turn; post-fault state judged against pre-fault models through an allocation registry under ASan",
        "text": "For each operation instance the allocations it performs are counted, then the instance is rebuilt and re-run once per allocation with exactly that allocation throwing std::bad_alloc; afterwards bad_alloc must have reached the caller, the registry must show no invalid/double free, every involved object must be readable, own its storage and hold its previous (target: previous or empty) value, be assignable and destructible, and no block may remain. The catalogue x modes x allocations product is enumerated completely in the thorough tier (thinned in the quick tier); rapidcheck adds random instances. After every faulted run a fixed set of unrelated calls (trim, tokenize, find, replace, split, format, conversions, codecs on fresh objects) must give the digest it gave before any fault was injected (nothing hidden is left behind). The catalogue also searches a long haystack with the n-byte needle (n to 1100) in both case modes and drives ST::printf / ST::writef (char, wchar_t, char16_t, char32_t) into sinks that never allocate themselves (FILE* over a fixed array, fixed-array streambuf), so that every failing allocation is the library's own. There is no counting pass: each instance is run with allocation 1, 2, 3 ... failing until a run completes without reaching the fault, so the first execution of an operation in the process is already a faulted one; blocks left behind count as a leak only when the identical run, repeated, leaves blocks behind again (storage kept for reuse is not a leak). C allocator calls (malloc/calloc/realloc/free) made by library code go through the same injector and registry as operator new (link-time wrap). The catalogue includes floating-point renderings of 64+ characters.",
        "level_note": "Complete over the catalogue, the six size classes and the storage-mode flags; other argument values are not explored. Faults are single (one failing allocation per run).",
    },
}
