# Sizing and claim for C20 (concurrent use needs no locking; ThreadSanitizer build)
SPEC = {
    "tsan": True,
    "ldflags": ["-Wl,--wrap=_Znam", "-Wl,--wrap=_Znwm"],      # operator new[] / new called from the harness object (string_theory is header-only) go through the per-thread fault hook
    "quick": {"rc_cases": 4000, "rc_procs": 10, "enum": True, "enum_shards": 8},
    "thorough": {"rc_cases": 6000, "rc_procs": 8, "enum": True, "enum_shards": 16, "fuzz_secs": 0},
    "assumptions": [
        "ThreadSanitizer's happens-before analysis reports unsynchronised conflicting accesses in instrumented code (all of string_theory is header code compiled into the harness) even when they do not physically overlap in the observed schedule",
        "code inside uninstrumented libc/libstdc++ is seen only through TSan's interceptors; hidden state there (e.g. strtok's) is caught only through the result digests, which needs a real overlap in some round",
        "interleavings are not enumerated: threads are released together behind a relaxed spin barrier (no happens-before edge), 4 rounds per case",
        "the expected digest of a program is computed by running it alone, twice, before the threads start",
    ],
    "claim": {
        "category": "exploration",
        "technique": "generated concurrent programs (rapidcheck byte-decoded thread program sets) executed under ThreadSanitizer, plus a differential oracle: every thread's result digest must equal the digest of the same program run alone",
        "text": "Each case builds a pool of immutable strings and buffers of every size class and starts 2..8 threads behind a barrier; each thread runs 4 rounds of a generated list of 5..60 operations drawn from 48 operation shapes covering const members on the shared objects, conversions, codecs, every formatting sink (incl. floating-point renderings of 64+ characters) and mutation of thread-local strings, buffers and string_streams. Any ThreadSanitizer report, or a thread obtaining results different from a solo run of the same program, is a violation. The threads run BEFORE the solo runs that give the expected digests, and the shared pool is built without calling any codec or validator, so whatever the library builds on first use is first touched concurrently (unsynchronised lazy initialisation is reported by ThreadSanitizer in every process). Five rounds per case: three plain, one in which the odd threads run every operation with its k-th allocation failing (k = 1..6; operator new / new[] calls of the harness object are redirected at link time), one plain again; results of the faulted round are not compared. An enumerated cold-start storm complements the generated programs: 1600 fresh processes (fork; the parent never calls the library), 8 threads, one same-program case each, every operation kind taking its turn as the first operation; per-thread digests must equal the solo digest (first-use state that is built in steps with atomics only is invisible to the race detector).",
        "level_note": "Observed schedules plus TSan's happens-before closure; interleavings are not enumerated and races inside uninstrumented libc are visible only through interceptors or wrong results. A saved case is replayed 12 times (each replay repeats the case 4 times in one process) and counts when its failure shows again at least once: thread-program failures depend on the schedule.",
    },
}
