# Per-property sizing of the engines and the claim text that goes to MANIFEST.json.
# One module per property: props/Cxx.py defines SPEC = {
#   "quick":    {"rc_cases": N per process, "rc_procs": P, "max_size": optional rapidcheck max_size (default: Info.max_len),
#                "enum": bool, "enum_shards": 16, "budget_s": wall budget after which exploration just ends (inconclusive)},
#   "thorough": {... same ..., "fuzz_secs": S, "fuzz_workers": W},
#   "variants": optional {name: [extra compiler flags]}   (default one variant ""),
#   "tsan": optional bool,
#   "assumptions": [...], "claim": {"category","technique","text","level_note"} }
import importlib, os, re
PROPS = {}
for f in sorted(os.listdir(os.path.dirname(__file__))):
    m = re.fullmatch(r"(C\d+)\.py", f)
    if m:
        PROPS[m.group(1)] = importlib.import_module("props." + m.group(1)).SPEC
