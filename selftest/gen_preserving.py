#!/usr/bin/env python3
"""Writes selftest/preserving.json: edits to the library that keep every listed property true (refactorings, retuned
constants, reworded messages, other-but-allowed behaviour where a property leaves the outcome open).  Each is applied to a
scratch copy by run_mutants.py and the registered checks of the properties it could touch must stay SILENT (exit 0, no
VIOLATION).  A check that fires on one of these is a false alarm of the machinery and is corrected there."""
import json, os
V = os.path.dirname(os.path.dirname(os.path.abspath(__file__)))
ALL = ["C%02d" % i for i in range(1, 21)]
E = []
def edit(id, what, props, *repls):
    E.append({"id": id, "what": what, "props": props, "edits": [{"file": f, "find": a, "replace": b, **({"count": c[0]} if c else {})} for (f, a, b, *c) in repls]})

edit("P01-sso-24", "small-buffer limit 24 elements / 96 bytes instead of 16 / 48", ALL,
     ("include/st_config.h.in", "#define ST_MAX_SSO_LENGTH       (16)", "#define ST_MAX_SSO_LENGTH       (24)"),
     ("include/st_config.h.in", "#define ST_MAX_SSO_SIZE         (48)", "#define ST_MAX_SSO_SIZE         (96)"))
edit("P02-sso-8", "small-buffer limit 8 elements / 16 bytes", ["C01", "C03", "C04", "C05", "C06", "C07", "C08", "C09", "C12", "C14", "C18", "C19"],
     ("include/st_config.h.in", "#define ST_MAX_SSO_LENGTH       (16)", "#define ST_MAX_SSO_LENGTH       (8)"),
     ("include/st_config.h.in", "#define ST_MAX_SSO_SIZE         (48)", "#define ST_MAX_SSO_SIZE         (16)"))
edit("P03-stack-128", "string_stream in-object capacity 128 instead of 256", ["C10", "C11", "C12", "C13", "C16", "C17", "C18", "C19", "C20"],
     ("include/st_config.h.in", "#define ST_STACK_STRING_SIZE    (256)", "#define ST_STACK_STRING_SIZE    (128)"))
edit("P04-stack-1000", "string_stream in-object capacity 1000", ["C16", "C17", "C18", "C19"],
     ("include/st_config.h.in", "#define ST_STACK_STRING_SIZE    (256)", "#define ST_STACK_STRING_SIZE    (1000)"))
edit("P05-growth-1.5x", "string_stream grows by 1.5x + 64 instead of doubling", ["C16", "C17", "C18", "C19", "C20"],
     ("include/st_stringstream.h", "big_size *= 2;", "big_size += big_size / 2 + 64;"))
edit("P06-compare-ci-pm1", "compare_ci returns -1/+1 by unsigned folded byte instead of the signed difference", ["C06", "C07", "C08", "C09", "C20"],
     ("include/st_string_priv.h", "                return cl - cr;", "                return static_cast<unsigned char>(cl) < static_cast<unsigned char>(cr) ? -1 : 1;"))
edit("P07-hash-other", "hash / hash_i mix the bytes differently (rotate-multiply instead of FNV-1a)", ["C06", "C04", "C20"],
     ("include/st_string.h", "                hash ^= static_cast<size_t>(*cp++);\n                hash *= _ST_PRIVATE::fnv_constants<size_t>::prime;",
      "                hash = ((hash << 7) | (hash >> (sizeof(size_t) * 8 - 7))) + static_cast<unsigned char>(*cp++);\n                hash *= 0x9E3779B97F4A7C15ull;"),
     ("include/st_string.h", "                hash ^= static_cast<size_t>(_ST_PRIVATE::cl_fast_lower(*cp++));\n                hash *= _ST_PRIVATE::fnv_constants<size_t>::prime;",
      "                hash = ((hash << 7) | (hash >> (sizeof(size_t) * 8 - 7))) + static_cast<unsigned char>(_ST_PRIVATE::cl_fast_lower(*cp++));\n                hash *= 0x9E3779B97F4A7C15ull;"))
edit("P08-messages", "every exception and assertion message reworded", ["C02", "C03", "C10", "C11", "C13", "C15", "C17", "C18"],
     ("include/st_utf_conv_priv.h", 'ST::unicode_error("Incomplete UTF-8 sequence")', 'ST::unicode_error("truncated UTF-8 character")'),
     ("include/st_utf_conv_priv.h", 'ST::unicode_error("Incomplete surrogate pair")', 'ST::unicode_error("lone surrogate")'),
     ("include/st_utf_conv_priv.h", 'ST::unicode_error("Invalid UTF-8 sequence byte")', 'ST::unicode_error("bad byte in UTF-8 text")'),
     ("include/st_utf_conv_priv.h", 'ST::unicode_error("Unicode character out of range")', 'ST::unicode_error("code point too large")'),
     ("include/st_utf_conv_priv.h", 'ST::unicode_error("Latin-1 character out of range")', 'ST::unicode_error("not representable in Latin-1")'),
     ("include/st_formatter.h", '"Unterminated format specifier"', '"format specifier is not closed"', 4),
     ("include/st_formatter.h", '"Unexpected character in format string"', '"unknown format flag"'),
     ("include/st_formatter.h", '"Parameter index out of range"', '"no such argument"', 2),
     ("include/st_formatter.h", '"Char formatting does not currently support padding"', '"padding a character is unsupported"'),
     ("include/st_format_priv.h", '"Char formatting does not currently support padding"', '"padding a character is unsupported"'),
     ("include/st_codecs.h", '"Invalid hex input length"', '"odd number of hex digits"'),
     ("include/st_codecs.h", '"Invalid character in hex input"', '"not a hex digit"'),
     ("include/st_codecs.h", '"Invalid base64 input length"', '"base64 length is not a multiple of 4"'),
     ("include/st_codecs.h", '"Invalid character in base64 input"', '"not a base64 character"'))
edit("P09-move-assign-swap", "buffer move assignment hands the target's old value to the source (swap semantics) instead of emptying it", ["C04", "C05", "C16", "C18", "C19", "C01", "C09"],
     ("include/st_charbuffer.h",
      "            if (is_reffed())\n                delete[] m_chars;\n\n            m_size = move.m_size;\n            m_chars = is_reffed() ? move.m_chars : m_data;\n            traits_t::copy(m_data, move.m_data, local_length);\n            move.m_chars = move.m_data;\n            move.m_size = 0;\n            traits_t::assign(move.m_data, local_length, 0);\n            return *this;",
      "            buffer<char_T> old(static_cast<buffer<char_T> &&>(*this));\n\n            m_size = move.m_size;\n            m_chars = is_reffed() ? move.m_chars : m_data;\n            traits_t::copy(m_data, move.m_data, local_length);\n            move.m_size = old.m_size;\n            move.m_chars = move.is_reffed() ? old.m_chars : move.m_data;\n            traits_t::copy(move.m_data, old.m_data, local_length);\n            old.m_chars = old.m_data;\n            old.m_size = 0;\n            return *this;"))
edit("P10-find-std-search", "needle search through std::search instead of the hand-written loop", ["C07", "C08", "C09", "C20"],
     ("include/st_string_priv.h",
      "        for ( ;; ) {\n            cp = find_cs(cp, ep - cp, needle[0]);\n            if (!cp || cp + needle_size > ep)\n                return nullptr;\n            if (compare_cs(cp, needle, needle_size) == 0)\n                return cp;\n            ++cp;\n        }",
      "        if (needle_size > size)\n            return nullptr;\n        cp = std::search(cp, ep, needle, needle + needle_size);\n        return cp == ep ? nullptr : cp;"))
edit("P11-fold-bit", "ASCII case folding by bit operations", ["C06", "C07", "C08", "C09"],
     ("include/st_string_priv.h", "            return ch + 32;", "            return static_cast<char>(ch | 0x20);"),
     ("include/st_string_priv.h", "            return ch - 32;", "            return static_cast<char>(ch & ~0x20);"))
edit("P12-float-buffer-512", "float_formatter keeps a 512-byte buffer", ["C12", "C13", "C16", "C10", "C11"],
     ("include/st_format_numeric.h", "        char m_buffer[std::numeric_limits<float_T>::max_exponent10 + 10 < 64\n                      ? 64 : std::numeric_limits<float_T>::max_exponent10 + 10];", "        char m_buffer[512];"))
edit("P13-replace-no-revalidation", "replace() returns its result without validating it again", ["C09", "C04", "C18"],
     ("include/st_string.h", "                std::char_traits<char>::copy(out, pstart, pend - pstart);\n\n            return result;", "                std::char_traits<char>::copy(out, pstart, pend - pstart);\n\n            return string::from_validated(std::move(result));"))
edit("P14-alloc-rounded", "buffers round heap blocks up to a multiple of 16 elements", ["C03", "C04", "C05", "C14", "C18", "C19"],
     ("include/st_charbuffer.h", "new char_T[copy.m_size + 1]", "new char_T[(copy.m_size + 16) & ~size_t(15)]", 2),
     ("include/st_charbuffer.h", "new char_T[m_size + 1]", "new char_T[(m_size + 16) & ~size_t(15)]", 2),
     ("include/st_charbuffer.h", "new char_T[size + 1]", "new char_T[(size + 16) & ~size_t(15)]"))
edit("P15-ostream-put-loop", "narrow ostream sink writes byte by byte", ["C10", "C17"],
     ("include/st_iostream.h", "            m_stream.write(data, size);", "            for (size_t i = 0; i < size; ++i)\n                m_stream.put(data[i]);"))
json.dump(E, open(os.path.join(V, "selftest", "preserving.json"), "w"), indent=1)
print(len(E), "edits,", sum(len(e["props"]) for e in E), "runs")
