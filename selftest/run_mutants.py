#!/usr/bin/env python3
"""Mutation sensitivity self-test (DESIGN.md section 7).

  run_mutants.py [--props C05,C16] [--ids m1,m2] [--suite] [--tier quick] [--out selftest/RESULTS.json]

Each mutant in selftest/mutants.json is applied to a scratch copy of /repo's HEAD outside /repo and
/verif (VERIF_REPO redirects the driver), optionally the upstream suite is built and run on it
(--suite; a mutant that fails the suite is marked 'suite-fails' - the existing tests already
expose it), then the property's check must report a VIOLATION.  The scratch copy is deleted.
A mutant is one of:
  {"id","property","file","find","replace"[,"count"]}      exact-text replacement
  {"id","property","revert":"<commit>"}                    pre-fix version of the files of a fix: commit
  {"id","property","patch":"seeded/<id>/patch.diff"}       a saved diff (git apply)
"""
import argparse, json, os, re, shutil, subprocess, sys, time, tempfile

V = os.path.dirname(os.path.dirname(os.path.abspath(__file__)))


def make_copy():
    d = tempfile.mkdtemp(prefix="st_mut_", dir="/tmp")
    subprocess.run("git -C /repo archive HEAD | tar -x -C %s" % d, shell=True, check=True)
    return d


def apply(m, d):
    if "revert" in m:
        files = subprocess.run(["git", "-C", "/repo", "show", "--name-only", "--format=", m["revert"]], stdout=subprocess.PIPE, text=True, check=True).stdout.split()
        # reverse-apply just that commit's diff, so later fixes to the same file stay
        diff = subprocess.run(["git", "-C", "/repo", "show", "--format=", m["revert"]], stdout=subprocess.PIPE, check=True).stdout
        r = subprocess.run(["patch", "-R", "-p1", "-d", d, "--no-backup-if-mismatch"], input=diff, stdout=subprocess.PIPE, stderr=subprocess.STDOUT)
        if r.returncode:
            raise RuntimeError("cannot reverse-apply %s: %s" % (m["revert"], r.stdout.decode()[-300:]))
        return files
    if "patch" in m:
        p = os.path.join(V, m["patch"])
        r = subprocess.run(["patch", "-p1", "-d", d, "--no-backup-if-mismatch", "-i", p], stdout=subprocess.PIPE, stderr=subprocess.STDOUT)
        if r.returncode:
            raise RuntimeError("cannot apply %s: %s" % (p, r.stdout.decode()[-300:]))
        return [p]
    path = os.path.join(d, m["file"])
    s = open(path).read()
    n = s.count(m["find"])
    want = m.get("count", 1)
    if n != want:
        raise RuntimeError("mutant %s: pattern occurs %d times in %s, expected %d" % (m["id"], n, m["file"], want))
    open(path, "w").write(s.replace(m["find"], m["replace"]))
    return [m["file"]]


def suite(d):
    b = os.path.join(d, "_b")
    r = subprocess.run(["cmake", "-S", d, "-B", b, "-G", "Ninja", "-DCMAKE_BUILD_TYPE=RelWithDebInfo", "-DFETCHCONTENT_SOURCE_DIR_GTEST=/usr/src/googletest",
                        "-DFETCHCONTENT_FULLY_DISCONNECTED=ON"], stdout=subprocess.PIPE, stderr=subprocess.STDOUT, text=True)
    if r.returncode:
        return "suite-configure-error"
    r = subprocess.run(["cmake", "--build", b, "-j", "8"], stdout=subprocess.PIPE, stderr=subprocess.STDOUT, text=True)
    if r.returncode:
        return "does-not-compile"
    try:
        r = subprocess.run([os.path.join(b, "test", "st_gtests")], stdout=subprocess.PIPE, stderr=subprocess.STDOUT, text=True, timeout=300)
    except subprocess.TimeoutExpired:
        return "suite-hangs"
    shutil.rmtree(b, ignore_errors=True)
    return "suite-passes" if r.returncode == 0 else "suite-fails"


def main():
    ap = argparse.ArgumentParser()
    ap.add_argument("--props", default="")
    ap.add_argument("--ids", default="")
    ap.add_argument("--suite", action="store_true")
    ap.add_argument("--tier", default="quick")
    ap.add_argument("--file", default=os.path.join(V, "selftest", "mutants.json"))
    ap.add_argument("--out", default="")
    ap.add_argument("--jobs", type=int, default=1, help="mutants checked concurrently")
    a = ap.parse_args()
    muts = json.load(open(a.file))
    props = set(filter(None, a.props.split(",")))
    ids = set(filter(None, a.ids.split(",")))
    todo = [m for m in muts if (not props or m["property"] in props) and (not ids or m["id"] in ids)]

    def one(m):
        d = make_copy()
        try:
            apply(m, d)
            st = suite(d) if a.suite else "not-run"
            t0 = time.time()
            env = dict(os.environ, VERIF_REPO=d)
            if a.jobs > 1:
                env["VERIF_JOBS"] = str(max(4, 16 // a.jobs))
            r = subprocess.run([sys.executable, os.path.join(V, "verif.py"), "check", m["property"], "--tier", a.tier], stdout=subprocess.PIPE, stderr=subprocess.STDOUT, text=True, env=env, cwd=V)
            dt = time.time() - t0
            viol = re.findall(r"^VIOLATION property=(\S+)", r.stdout, re.M)
            builderr = "BUILD-ERROR" in r.stdout or "build failed" in r.stdout
            why = ""
            mm = re.search(r"why: (.*)", r.stdout) or re.search(r"ERROR: (\w+Sanitizer: [\w-]+)", r.stdout) or re.search(r"runtime error: (.*)", r.stdout) or re.search(r"WARNING: (ThreadSanitizer: [^(]*)", r.stdout)
            if mm:
                why = mm.group(1)[:160]
            if builderr:
                why = "[HARNESS/ENGINE DID NOT BUILD] " + r.stdout[-200:].replace("\n", " ")
            if "did not reproduce" in r.stdout:
                why = "[UNREPRODUCIBLE CANDIDATE: replay encoding or state leak?] " + why
            row = {"id": m["id"], "property": m["property"], "suite": st, "caught": bool(viol) and r.returncode == 1, "build_error": builderr, "seconds": round(dt, 1), "first_reason": why, "tier": a.tier,
                   "what": m.get("what", m.get("find", m.get("revert", m.get("patch", "")))[:80])}
        except Exception as e:
            row = {"id": m["id"], "property": m["property"], "suite": "n/a", "caught": False, "build_error": False, "seconds": 0, "first_reason": "ERROR " + str(e)[:200], "tier": a.tier, "what": m.get("what", "")}
        finally:
            shutil.rmtree(d, ignore_errors=True)
            import glob, hashlib
            for old in glob.glob(os.path.join(V, "build", "*-alt" + hashlib.sha1(d.encode()).hexdigest()[:8] + "*")):
                shutil.rmtree(old, ignore_errors=True)
        print("%-28s %-4s suite=%-13s caught=%-5s %6.1fs  %s" % (row["id"], row["property"], row["suite"], row["caught"], row["seconds"], row["first_reason"][:110]), flush=True)
        return row

    if a.jobs > 1:
        from concurrent.futures import ThreadPoolExecutor
        with ThreadPoolExecutor(a.jobs) as ex:
            rows = list(ex.map(one, todo))
    else:
        rows = [one(m) for m in todo]
    if a.out:
        old = []
        if os.path.exists(a.out):
            old = [r for r in json.load(open(a.out)) if r["id"] not in {x["id"] for x in rows}]
        json.dump(old + rows, open(a.out, "w"), indent=1)
    return 0


if __name__ == "__main__":
    sys.exit(main())
