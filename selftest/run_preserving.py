#!/usr/bin/env python3
"""False-alarm self-test: applies each property-preserving edit of selftest/preserving.json to a scratch copy of /repo's HEAD,
confirms that the upstream suite still passes with it, and runs the registered quick (or thorough) check of every property the
edit could touch.  Every run must exit 0 without a VIOLATION line.

  run_preserving.py [--ids P01-sso-24,...] [--props C05,...] [--tier quick] [--jobs 3] [--out selftest/PRESERVING_RESULTS.json]
"""
import argparse, json, os, re, shutil, subprocess, sys, time, glob, hashlib
sys.path.insert(0, os.path.dirname(os.path.abspath(__file__)))
import run_mutants as rm
V = rm.V


def main():
    ap = argparse.ArgumentParser()
    ap.add_argument("--ids", default="")
    ap.add_argument("--props", default="")
    ap.add_argument("--tier", default="quick")
    ap.add_argument("--jobs", type=int, default=2)
    ap.add_argument("--nosuite", action="store_true")
    ap.add_argument("--out", default=os.path.join(V, "selftest", "PRESERVING_RESULTS.json"))
    ap.add_argument("--file", default=os.path.join(V, "selftest", "preserving.json"))
    a = ap.parse_args()
    edits = json.load(open(a.file))
    ids = set(filter(None, a.ids.split(",")))
    props = set(filter(None, a.props.split(",")))
    rows = []
    for e in edits:
        if ids and e["id"] not in ids:
            continue
        d = rm.make_copy()
        try:
            for r in e["edits"]:
                rm.apply(dict(r, id=e["id"]), d)
            st = "not-run" if a.nosuite else rm.suite(d)
            todo = [p for p in e["props"] if not props or p in props]

            def one(p):
                env = dict(os.environ, VERIF_REPO=d, VERIF_JOBS=str(max(4, 16 // a.jobs)))
                t0 = time.time()
                r = subprocess.run([sys.executable, os.path.join(V, "verif.py"), "check", p, "--tier", a.tier], stdout=subprocess.PIPE, stderr=subprocess.STDOUT, text=True, env=env, cwd=V)
                viol = re.findall(r"^VIOLATION.*", r.stdout, re.M)
                mm = re.search(r"why: (.*)", r.stdout) or re.search(r"ERROR: (\w+Sanitizer: [\w-]+)", r.stdout) or re.search(r"runtime error: (.*)", r.stdout)
                builderr = "BUILD-ERROR" in r.stdout or "build failed" in r.stdout
                row = {"id": e["id"], "property": p, "suite": st, "silent": r.returncode == 0 and not viol, "exit": r.returncode, "build_error": builderr, "seconds": round(time.time() - t0, 1),
                       "first_reason": (mm.group(1)[:200] if mm and (viol or r.returncode) else ("[BUILD] " + r.stdout[-300:] if builderr else "")), "tier": a.tier, "what": e["what"]}
                print("%-28s %-4s suite=%-13s silent=%-5s exit=%d %6.1fs  %s" % (row["id"], p, st, row["silent"], r.returncode, row["seconds"], row["first_reason"][:140]), flush=True)
                if not row["silent"]:
                    open(os.path.join("/tmp", "preserving_%s_%s.log" % (e["id"], p)), "w").write(r.stdout)
                return row
            from concurrent.futures import ThreadPoolExecutor
            with ThreadPoolExecutor(a.jobs) as ex:
                rows += list(ex.map(one, todo))
        except Exception as ex_:
            print(e["id"], "ERROR", str(ex_)[:300], flush=True)
            rows.append({"id": e["id"], "property": "-", "suite": "n/a", "silent": False, "exit": -1, "build_error": False, "seconds": 0, "first_reason": "ERROR " + str(ex_)[:200], "tier": a.tier, "what": e["what"]})
        finally:
            shutil.rmtree(d, ignore_errors=True)
            for old in glob.glob(os.path.join(V, "build", "*-alt" + hashlib.sha1(d.encode()).hexdigest()[:8] + "*")):
                shutil.rmtree(old, ignore_errors=True)
    old = []
    if os.path.exists(a.out):
        done = {(x["id"], x["property"], x["tier"]) for x in rows}
        old = [r for r in json.load(open(a.out)) if (r["id"], r["property"], r["tier"]) not in done]
    json.dump(old + rows, open(a.out, "w"), indent=1)
    bad = [r for r in rows if not r["silent"]]
    print("%d runs, %d not silent" % (len(rows), len(bad)))
    return 1 if bad else 0


if __name__ == "__main__":
    sys.exit(main())
