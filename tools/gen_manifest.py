#!/usr/bin/env python3
"""Writes MANIFEST.json from props.py (claims) + properties.jsonl; validates against the schema."""
import json, os, subprocess, sys
V = os.path.dirname(os.path.dirname(os.path.abspath(__file__)))
sys.path.insert(0, V)
from props import PROPS
ids = [json.loads(l)["id"] for l in open(os.path.join(V, "properties.jsonl"))]
hooks_commits = []
try:
    out = subprocess.run(["git", "-C", "/repo", "log", "--format=%H %s"], stdout=subprocess.PIPE, text=True).stdout
    hooks_commits = [l.split()[0] for l in out.splitlines() if " verif-hook:" in l]
except Exception:
    pass
checks, na = [], []
for pid in ids:
    spec = PROPS.get(pid)
    if spec and "claim" in spec and os.path.exists(os.path.join(V, "harness", "prop_%s.cpp" % pid)):
        c = dict(spec["claim"])
        if pid not in ("C19", "C20"):      # the two stages every other check runs on top of its own engines (verif.py AUX)
            c["text"] += (" On top of this, the check runs this property's functions (a) in generated thread programs under ThreadSanitizer, threads first and a solo run afterwards, in fresh processes, so that"
                          " anything built on first use is first used concurrently (C20's harness restricted to this property's operation kinds), and (b) with every allocation they perform failing in turn, followed by"
                          " a digest of unrelated calls that must be unchanged (C19's enumerator restricted to this property's operations): a result that is wrong only under concurrent first use or after a failed"
                          " allocation is reported as a violation of this property. (c) A static-initialisation probe is part of every harness: a fixed set of calls made before the library's own namespace-scope"
                          " initialisers ran must give the results it gives from main().")
            c["technique"] += "; plus family-restricted concurrent-use (ThreadSanitizer) and allocation-fault stages"
        checks.append({
            "property_id": pid,
            "quick_cmd": "python3 verif.py check %s --tier quick" % pid,
            "thorough_cmd": "python3 verif.py check %s --tier thorough" % pid,
            "evidence_file": "/verif/evidence/%s.json" % pid,
            "replay_cmd_template": "python3 verif.py replay %s {path}" % pid,
            "engine": c.get("engine", "rapidcheck byte-vector engine + enumerators + libFuzzer around harness/prop_%s.cpp" % pid),
            "level_claimed": {"category": c["category"], "text": c["text"], "design_ref": c.get("design_ref", "DESIGN.md section 4, " + pid)},
            "level_note": c["level_note"],
            "technique": c["technique"],
        })
    else:
        na.append({"property_id": pid, "reason": (spec or {}).get("na_reason", "check not built yet in this round (planned: DESIGN.md section 4)")})
m = {
    "version": 1,
    "setup_cmd": "python3 verif.py setup",
    "hooks": {
        "guard": "ST_VERIF_HOOKS",
        "enable": "harness translation units are compiled with -DST_VERIF_HOOKS (verif.py BASEFLAGS); the hook makes ST_ASSERT call _ST_PRIVATE::verif_assert_hook, defined by the harness, before aborting",
        "baseline_off_cmd": "python3 /verif/verif.py baseline",
        "source_commits": hooks_commits,
        "add_only": True,
    },
    "engines": [
        {"name": "rapidcheck-bytes", "path": "harness/common/engine.cpp", "serves_properties": [c["property_id"] for c in checks],
         "kind_free_text": "rapidcheck generates and shrinks byte vectors; each property's verif_case decodes them into a structured case and judges it against its oracle; RC_PARAMS seed from VERIF_SEED"},
        {"name": "libfuzzer", "path": "harness/common/fuzz_entry.cpp", "serves_properties": [c["property_id"] for c in checks if PROPS[c["property_id"]]["thorough"].get("fuzz_secs", 0) > 0],
         "kind_free_text": "coverage-guided fuzzing of the same verif_case (oracle inside the target), ASan+UBSan"},
        {"name": "enumerators", "path": "harness/prop_*.cpp:verif_enumerate", "serves_properties": [c["property_id"] for c in checks],
         "kind_free_text": "sharded deterministic sweeps of finite sub-domains"},
        {"name": "replay", "path": "harness/common/engine.cpp (mode replay)", "serves_properties": [c["property_id"] for c in checks],
         "kind_free_text": "re-executes one saved case with no generator library involved"},
    ],
    "checks": checks,
    "not_applicable": na,
    "notes": "All checks rebuild harness/prop_<id>.cpp against /repo/include of the current working tree (content-hash cache under /verif/build). VERIF_SEED feeds every engine. known_findings.json lists repaired defects (fixed:) and open findings.",
}
json.dump(m, open(os.path.join(V, "MANIFEST.json"), "w"), indent=1)
try:
    import jsonschema
    jsonschema.validate(m, json.load(open("/root/.vp/MANIFEST.schema.json")))
    print("MANIFEST.json valid: %d checks, %d not_applicable" % (len(checks), len(na)))
except ImportError:
    print("written (jsonschema not importable here)")
