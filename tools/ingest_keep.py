#!/usr/bin/env python3
"""Stores property-PRESERVING changes written by independent sub-agents (given only the property text) under /verif/preserving/<id>/
after confirming that the patch applies to /repo's HEAD, touches only include/, and that the upstream suite passes with it; appends
them to selftest/preserving_agents.json with the list of checks that must stay silent on them (the property's own check and the checks
of the properties anchored in the files the patch touches).

  ingest_keep.py <dir with Cxx/{A,B,C}/patch.diff notes.md> [prefix]
"""
import json, os, re, shutil, subprocess, sys, tempfile
V = os.path.dirname(os.path.dirname(os.path.abspath(__file__)))
sys.path.insert(0, os.path.join(V, "selftest"))
import run_mutants as rm
BYFILE = {"st_charbuffer.h": ["C04", "C05", "C06", "C18", "C19"], "st_string.h": ["C04", "C07", "C08", "C09", "C18", "C19"], "st_string_priv.h": ["C06", "C07", "C08", "C09", "C20"],
          "st_utf_conv.h": ["C01", "C02", "C03", "C18"], "st_utf_conv_priv.h": ["C01", "C02", "C03", "C18", "C20"], "st_codecs.h": ["C14", "C15", "C19"], "st_codecs_priv.h": ["C14", "C15", "C20"],
          "st_format.h": ["C10", "C11", "C17"], "st_formatter.h": ["C10", "C11", "C13", "C17"], "st_format_priv.h": ["C10", "C11", "C12"], "st_format_numeric.h": ["C12", "C13", "C16"],
          "st_stringstream.h": ["C16", "C17", "C19", "C12"], "st_iostream.h": ["C17", "C10"], "st_stdio.h": ["C17", "C10"], "st_assert.h": ["C10", "C03"]}


def main():
    src = sys.argv[1]; prefix = sys.argv[2] if len(sys.argv) > 2 else "K4"
    lst = os.path.join(V, "selftest", "preserving_agents.json")
    entries = json.load(open(lst)) if os.path.exists(lst) else []
    have = {e["id"] for e in entries}
    todo = []
    for prop in sorted(os.listdir(src)):
        for x in "ABC":
            d = os.path.join(src, prop, x)
            if os.path.exists(os.path.join(d, "patch.diff")) and "%s-%s-%s" % (prefix, prop, x) not in have:
                todo.append((prop, x, d))

    def one(t):
        prop, x, d = t
        kid = "%s-%s-%s" % (prefix, prop, x)
        patch = os.path.join(d, "patch.diff")
        files = re.findall(r"^\+\+\+ b/(\S+)", open(patch).read(), re.M)
        if not files or any(not f.startswith("include/") for f in files):
            return kid, None, "patch touches %s" % files
        c = rm.make_copy()
        try:
            r = subprocess.run(["patch", "-p1", "-d", c, "--no-backup-if-mismatch", "-i", patch], stdout=subprocess.PIPE, stderr=subprocess.STDOUT)
            if r.returncode:
                return kid, None, "does not apply"
            st = rm.suite(c)
        finally:
            shutil.rmtree(c, ignore_errors=True)
        if st != "suite-passes":
            return kid, None, st
        dest = os.path.join(V, "preserving", kid)
        os.makedirs(dest, exist_ok=True)
        shutil.copy(patch, os.path.join(dest, "patch.diff"))
        notes = open(os.path.join(d, "notes.md")).read() if os.path.exists(os.path.join(d, "notes.md")) else ""
        open(os.path.join(dest, "notes.md"), "w").write(notes)
        what = notes.splitlines()[0].split("change:", 1)[-1].strip()[:300] if notes else ""
        props = [prop]
        for f in files:
            for p in BYFILE.get(os.path.basename(f), []):
                if p not in props:
                    props.append(p)
        e = {"id": kid, "what": what, "props": props[:6], "edits": [{"patch": "preserving/%s/patch.diff" % kid}], "files": files,
             "origin": "independent sub-agent given only the text of property %s and a scratch worktree; asked for implementation changes that keep the property true" % prop}
        json.dump({**e, "suite": "112/112 with the patch"}, open(os.path.join(dest, "meta.json"), "w"), indent=1)
        return kid, e, "ok"

    from concurrent.futures import ThreadPoolExecutor
    with ThreadPoolExecutor(6) as ex:
        for kid, e, msg in ex.map(one, todo):
            print(kid, msg, (e or {}).get("props", ""), flush=True)
            if e:
                entries.append(e)
    json.dump(sorted(entries, key=lambda e: e["id"]), open(lst, "w"), indent=1)


if __name__ == "__main__":
    main()
