#!/usr/bin/env python3
"""Confirms a seeded change delivered by an independent sub-agent and stores it under /verif/seeded/<id>/.

  ingest_seed.py <property> <letter> <dir with patch.diff demo.cpp notes.md>

Steps (all on a scratch copy of /repo's HEAD under /tmp, removed afterwards):
  1. the demonstration compiles against the clean tree and exits 0
  2. the patch applies (git apply) and touches only include/
  3. the upstream suite builds and passes 112/112 with the patch
  4. the demonstration fails (non-zero exit, signal or sanitizer report) with the patch
Only then are patch.diff, demo.cpp, notes.md and meta.json written to /verif/seeded/S-<prop>-<letter>/.
Running the checks against the change is a separate step (selftest/run_seeded.py).
"""
import json, os, re, shutil, subprocess, sys, tempfile, time

V = os.path.dirname(os.path.dirname(os.path.abspath(__file__)))


def run(cmd, **kw):
    return subprocess.run(cmd, stdout=subprocess.PIPE, stderr=subprocess.STDOUT, text=True, **kw)


def main():
    prop, letter, src = sys.argv[1], sys.argv[2], sys.argv[3]
    prefix = sys.argv[4] if len(sys.argv) > 4 else "S"
    sid = "%s-%s-%s" % (prefix, prop, letter)
    patch = os.path.join(src, "patch.diff")
    demo = os.path.join(src, "demo.cpp")
    notes = open(os.path.join(src, "notes.md")).read() if os.path.exists(os.path.join(src, "notes.md")) else ""
    d = tempfile.mkdtemp(prefix="st_seedchk_", dir="/tmp")
    ran = []
    try:
        subprocess.run("git -C /repo archive HEAD | tar -x -C %s" % d, shell=True, check=True)
        subprocess.run(["git", "init", "-q"], cwd=d, check=True)
        b = os.path.join(d, "_b")
        r = run(["cmake", "-S", d, "-B", b, "-G", "Ninja", "-DCMAKE_BUILD_TYPE=RelWithDebInfo", "-DFETCHCONTENT_SOURCE_DIR_GTEST=/usr/src/googletest", "-DFETCHCONTENT_FULLY_DISCONNECTED=ON"])
        if r.returncode:
            print(sid, "configure failed"); return 2
        tsan = "thread" in open(demo).read() and prop == "C20"
        first = open(demo).readline()
        extra = first.split("FLAGS:", 1)[1].split() if "FLAGS:" in first else []
        flags = ["clang++", "-std=c++20", "-g", "-O1"] + extra + ["-I", os.path.join(d, "include"), "-I", os.path.join(b, "include"), demo, "-lpthread"]

        def demo_run(tag):
            exe = os.path.join(d, "demo_" + tag)
            c = run(flags + ["-o", exe])
            if c.returncode:
                return "compile-error", c.stdout[-1500:]
            try:
                x = run([exe], timeout=600, cwd=d)
            except subprocess.TimeoutExpired:
                return "timeout", ""
            return x.returncode, x.stdout[-600:]

        rc0, out0 = demo_run("clean")
        ran.append("demo on the clean tree: exit %s" % rc0)
        if rc0 != 0:
            print(sid, "REJECT: demo does not pass on the clean tree:", rc0, out0); return 1
        files = re.findall(r"^\+\+\+ b/(\S+)", open(patch).read(), re.M)
        if not files or any(not f.startswith("include/") for f in files):
            print(sid, "REJECT: patch touches", files); return 1
        a = run(["git", "apply", "--whitespace=nowarn", patch], cwd=d)
        if a.returncode:
            print(sid, "REJECT: patch does not apply:", a.stdout); return 1
        ran.append("git apply patch.diff (files: %s)" % ", ".join(files))
        r = run(["cmake", "--build", b, "-j", "6"])
        if r.returncode:
            print(sid, "REJECT: does not compile with the patch", r.stdout[-800:]); return 1
        try:
            t = run([os.path.join(b, "test", "st_gtests")], timeout=600, cwd=d)
        except subprocess.TimeoutExpired:
            print(sid, "REJECT: suite hangs"); return 1
        m = re.search(r"\[  PASSED  \] (\d+) tests", t.stdout)
        npass = int(m.group(1)) if m else 0
        ran.append("upstream suite with the patch: exit %d, %d tests passed" % (t.returncode, npass))
        if t.returncode != 0 or npass != 112:
            print(sid, "REJECT: suite does not pass with the patch (%d passed, exit %d)" % (npass, t.returncode)); return 1
        # flaky (threaded) demos: up to 5 attempts
        rc1, out1 = None, ""
        for attempt in range(5 if prop == "C20" else 1):
            rc1, out1 = demo_run("patched")
            if rc1 != 0:
                break
        ran.append("demo with the patch: exit %s" % rc1)
        if rc1 == 0 or rc1 == "compile-error":
            print(sid, "REJECT: demo does not fail with the patch:", rc1, out1); return 1
        dest = os.path.join(V, "seeded", sid)
        os.makedirs(dest, exist_ok=True)
        shutil.copy(patch, os.path.join(dest, "patch.diff"))
        shutil.copy(demo, os.path.join(dest, "demo.cpp"))
        open(os.path.join(dest, "notes.md"), "w").write(notes)
        meta = {
            "id": sid, "property": prop, "files": files,
            "origin": "independent sub-agent given only the property text and a scratch worktree of /repo" + (" (round 2: asked for changes that exhaustive small-domain enumeration, reference-model random testing and sanitizers would not find easily)" if prefix == "S2" else "")
                      + (" (round 3: asked for three changes of different kinds - cooperating sites, multi-step histories / object pre-states, unusual inputs or build configurations, faults at a particular point, thread interleavings - that would slip past sanitizers, exhaustive small-input enumeration, differential testing through every overload, boundary lengths, object pre-states and allocation-fault injection)" if prefix == "S3" else "")
                      + (" (round 4: as round 3, and told that the checkers already have unsigned-char builds, operands at every alignment, errno pre-states, thread programs under ThreadSanitizer in fresh processes incl. allocation failures in some threads, post-fault comparison of unrelated results, 0x20-neighbour byte pairs, sizes to 1 MiB, SIZE_MAX output sizes, FILE* lock probes)" if prefix == "S4" else ""),
            "demo_flags": extra,
            "needs": (notes.splitlines()[0].split("needs:", 1)[1].strip() if notes.lower().startswith("needs:") else "see notes.md (the author's description of the trigger)"),
            "confirmed": ran, "demo_output_with_patch": out1[-400:],
            "confirmed_at": time.strftime("%Y-%m-%d %H:%M:%S"),
            "repo_head": subprocess.run(["git", "-C", "/repo", "rev-parse", "HEAD"], stdout=subprocess.PIPE, text=True).stdout.strip(),
            "checks": {},
        }
        json.dump(meta, open(os.path.join(dest, "meta.json"), "w"), indent=1)
        print(sid, "OK:", "; ".join(ran))
        return 0
    finally:
        shutil.rmtree(d, ignore_errors=True)


if __name__ == "__main__":
    sys.exit(main())
