#!/usr/bin/env python3
"""Builds selftest/SEEDED_RESULTS_r34.json (the 'now' column for rounds 3 and 4): changes caught by the first run keep that row (the checks
have only been extended since); changes missed by the first run take the row of the re-run against the current checks
(selftest/seeded34_rerun_rows.json, produced by run_mutants.py --file selftest/seeded34_missed.json), or of a later single run
recorded in selftest/seeded34_single_runs.json."""
import json, os
V = os.path.dirname(os.path.dirname(os.path.abspath(__file__)))
def load(n):
    p = os.path.join(V, "selftest", n)
    return json.load(open(p)) if os.path.exists(p) else []
first = {r["id"]: r for r in load("seeded3_first_run.json") + load("seeded4_first_run.json")}
rerun = {r["id"]: r for r in load("seeded34_rerun_rows.json")}
single = {r["id"]: r for r in load("seeded34_single_runs.json")}
rows = []
for i, r in sorted(first.items()):
    if r["caught"]:
        rows.append(dict(r, note="first run (not repeated)"))
    elif i in single and (single[i]["caught"] or i not in rerun):
        rows.append(single[i])
    elif i in rerun:
        rows.append(rerun[i])
    else:
        rows.append(dict(r, note="not re-run since the first run"))
json.dump(rows, open(os.path.join(V, "selftest", "SEEDED_RESULTS_r34.json"), "w"), indent=1)
print(len(rows), sum(1 for r in rows if r["caught"]))
