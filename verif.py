#!/usr/bin/env python3
"""Driver for the string_theory property checks (see DESIGN.md section 2.4).

  verif.py setup                       build engines, configure, warm the build cache
  verif.py check Cxx --tier quick|thorough
  verif.py replay Cxx FILE [...]       re-execute saved cases with the plain replay engine
  verif.py baseline                    upstream suite with the hook guard OFF
  verif.py build Cxx                   just build (prints binary paths)

Environment: VERIF_SEED (int, default 1), VERIF_REPO (default /repo; used by the
self-tests to point the checks at a scratch copy), VERIF_JOBS (default 16).
"""
import argparse, hashlib, json, os, re, shutil, subprocess, sys, time, glob

VERIF = os.path.dirname(os.path.abspath(__file__))
REPO = os.environ.get("VERIF_REPO", "/repo")
BUILD = os.path.join(VERIF, "build")
# checks pointed at a scratch copy (mutation / seeded-change self-tests) never touch the registered evidence or replays
ALT = REPO != "/repo"
ALT_TAG = ("-alt" + hashlib.sha1(REPO.encode()).hexdigest()[:8]) if ALT else ""   # keeps scratch-copy builds apart from /repo's (and from each other)
EVIDENCE_DIR = os.path.join(BUILD, "alt-evidence") if ALT else os.path.join(VERIF, "evidence")
REPLAYS_DIR = os.path.join(BUILD, "alt-replays") if ALT else os.path.join(VERIF, "replays")
JOBS = int(os.environ.get("VERIF_JOBS", "16"))
CXX = "clang++"
SAN = ["-fsanitize=address,undefined", "-fno-sanitize-recover=undefined", "-fno-sanitize=nonnull-attribute"]
BASEFLAGS = ["-std=c++20", "-g", "-O1", "-fno-omit-frame-pointer", "-Wno-deprecated-declarations", "-DST_VERIF_HOOKS"]
BUILD_VERSION = "3"   # bump when compile/link commands change (part of every build-cache key)
ASAN_ENV = "quarantine_size_mb=16:malloc_context_size=3:detect_leaks=0:detect_container_overflow=0:allocator_may_return_null=1:abort_on_error=0:handle_abort=0:max_malloc_fill_size=4096:malloc_fill_byte=190"

sys.path.insert(0, VERIF)
from props import PROPS  # per-property sizing table


def sh(cmd, **kw):
    return subprocess.run(cmd, **kw)


def file_hash(paths, extra=""):
    h = hashlib.sha256()
    h.update(extra.encode())
    for p in sorted(paths):
        h.update(p.encode())
        try:
            with open(p, "rb") as f:
                h.update(f.read())
        except OSError:
            h.update(b"<missing>")
    return h.hexdigest()[:16]


def tree_files(root, pats=None):
    out = []
    for d, _, fs in os.walk(root):
        for f in fs:
            out.append(os.path.join(d, f))
    return out


# --------------------------------------------------------------------------- configure
def configure():
    """cmake configure of REPO (tests off) to obtain st_config.h exactly as the project generates it."""
    srcs = [os.path.join(REPO, "CMakeLists.txt"), os.path.join(REPO, "include", "st_config.h.in")] + tree_files(os.path.join(REPO, "cmake"))
    h = hashlib.sha256()                      # content only: identical configurations of different copies share one directory
    for pth in sorted(srcs):
        h.update(os.path.relpath(pth, REPO).encode())
        try:
            h.update(open(pth, "rb").read())
        except OSError:
            h.update(b"<missing>")
    key = h.hexdigest()[:16]
    cfg = os.path.join(BUILD, "cfg-" + key)
    hdr = os.path.join(cfg, "include", "st_config.h")
    if not os.path.exists(hdr):
        # configure into a private directory and publish it with one rename: concurrent checks
        # (other properties, other VERIF_REPO values) never see or delete a half-made directory
        tmp = "%s.tmp%d" % (cfg, os.getpid())
        shutil.rmtree(tmp, ignore_errors=True)
        os.makedirs(tmp)
        r = sh(["cmake", "-S", REPO, "-B", tmp, "-G", "Ninja", "-DST_BUILD_TESTS=OFF"], stdout=subprocess.PIPE, stderr=subprocess.STDOUT, text=True)
        if r.returncode != 0 or not os.path.exists(os.path.join(tmp, "include", "st_config.h")):
            sys.stderr.write(r.stdout)
            shutil.rmtree(tmp, ignore_errors=True)
            raise SystemExit("configure failed")
        keep = os.path.join(tmp, "include")
        for name in os.listdir(tmp):          # only the generated header is needed
            if name != "include":
                pth = os.path.join(tmp, name)
                shutil.rmtree(pth, ignore_errors=True) if os.path.isdir(pth) else os.remove(pth)
        try:
            os.rename(tmp, cfg)
        except OSError:
            shutil.rmtree(tmp, ignore_errors=True)   # somebody else published the same configuration first
    return os.path.join(cfg, "include")


# --------------------------------------------------------------------------- engines
def build_engines():
    common = os.path.join(VERIF, "harness", "common")
    srcs = [os.path.join(common, f) for f in ("engine.cpp", "fuzz_entry.cpp", "verif.h")]
    key = file_hash(srcs, " ".join(SAN + BASEFLAGS))
    d = os.path.join(BUILD, "engine-" + key)
    outs = {"engine": os.path.join(d, "engine.o"), "engine_tsan": os.path.join(d, "engine_tsan.o"), "fuzz": os.path.join(d, "fuzz_entry.o")}
    if all(os.path.exists(p) for p in outs.values()):
        return outs
    for old in glob.glob(os.path.join(BUILD, "engine-*")):
        shutil.rmtree(old, ignore_errors=True)
    os.makedirs(d, exist_ok=True)
    jobs = [
        [CXX] + BASEFLAGS + SAN + ["-I", common, "-c", srcs[0], "-o", outs["engine"]],
        [CXX] + BASEFLAGS + ["-fsanitize=thread", "-I", common, "-c", srcs[0], "-o", outs["engine_tsan"]],
        [CXX] + BASEFLAGS + SAN + ["-I", common, "-c", srcs[1], "-o", outs["fuzz"]],
    ]
    procs = [subprocess.Popen(j, stdout=subprocess.PIPE, stderr=subprocess.STDOUT, text=True) for j in jobs]
    for p, j in zip(procs, jobs):
        out, _ = p.communicate()
        if p.returncode != 0:
            sys.stderr.write(out)
            raise SystemExit("engine build failed: " + " ".join(j))
    return outs


def all_variants(spec):
    """name -> extra compiler flags, over the variants of every tier ("variants" = both tiers, "variants_thorough" = thorough only)."""
    v = dict(spec.get("variants", {"": []}))
    v.update(spec.get("variants_thorough", {}))
    return v


def tier_variants(spec, tier):
    if tier == "thorough" and "variants_thorough" in spec:
        return list(spec["variants_thorough"].keys())
    return list(dict(spec.get("variants", {"": []})).keys())


def harness_sources(pid):
    h = os.path.join(VERIF, "harness")
    files = [os.path.join(h, "prop_%s.cpp" % pid)]
    for sub in ("common", "ref", "gen"):
        p = os.path.join(h, sub)
        if os.path.isdir(p):
            files += [f for f in tree_files(p) if f.endswith(".h")]
    return files


def build_prop(pid, variant="", want_fuzz=False, quiet=True):
    """Builds harness/prop_<pid>.cpp against REPO's *current* working tree.  Cached on the hash of
    every header under REPO/include, the generated config header, the harness and the flags."""
    cfginc = configure()
    eng = build_engines()
    spec = PROPS[pid]
    vflags = all_variants(spec)[variant]
    tsan = spec.get("tsan", False)
    san = ["-fsanitize=thread"] if tsan else SAN
    flags = BASEFLAGS + san + vflags + ["-I", os.path.join(REPO, "include"), "-I", cfginc, "-I", os.path.join(VERIF, "harness"),
                                       "-include", os.path.join(VERIF, "harness", "common", "st_hook.h")]
    srcs = harness_sources(pid)
    ld = list(spec.get("ldflags", []))
    if "alloc_track.h" in open(srcs[0]).read():      # C allocator calls of the harness object go through the registry / fault injector too
        flags = flags + ["-DVERIF_WRAP_MALLOC"]
        ld += ["-Wl,--wrap=malloc", "-Wl,--wrap=calloc", "-Wl,--wrap=realloc", "-Wl,--wrap=free"]
    key = file_hash(tree_files(os.path.join(REPO, "include")) + [os.path.join(cfginc, "st_config.h")] + srcs, " ".join(flags + ld) + REPO + eng["engine"] + BUILD_VERSION)
    tag = pid + ("-" + variant if variant else "") + ALT_TAG
    d = os.path.join(BUILD, "prop-%s-%s" % (tag, key))
    binp = os.path.join(d, "prop")
    fuzzp = os.path.join(d, "fuzz")
    need = [binp] + ([fuzzp] if want_fuzz else [])
    if all(os.path.exists(p) for p in need):
        return {"prop": binp, "fuzz": fuzzp, "dir": d}
    for old in glob.glob(os.path.join(BUILD, "prop-%s-*" % tag)):
        if old != d and re.fullmatch(r"prop-%s-[0-9a-f]{16}" % re.escape(tag), os.path.basename(old)):
            shutil.rmtree(old, ignore_errors=True)
    os.makedirs(d, exist_ok=True)
    src = srcs[0]   # prop_<pid>.cpp
    jobs = []
    if not os.path.exists(binp):
        jobs.append(("prop", [CXX] + flags + [src, eng["engine_tsan" if tsan else "engine"], "-lrapidcheck", "-lpthread"] + ld + ["-o", binp]))
    if want_fuzz and not os.path.exists(fuzzp):
        fz = [("-fsanitize=fuzzer,address,undefined" if f.startswith("-fsanitize=address") else f) for f in flags]
        jobs.append(("fuzz", [CXX] + fz + [src, eng["fuzz"]] + ld + ["-o", fuzzp]))
    procs = [(n, j, subprocess.Popen(j, stdout=subprocess.PIPE, stderr=subprocess.STDOUT, text=True)) for n, j in jobs]
    for n, j, p in procs:
        out, _ = p.communicate()
        if p.returncode != 0:
            sys.stderr.write(out[-6000:])
            shutil.rmtree(d, ignore_errors=True)
            raise SystemExit("BUILD-ERROR property=%s (%s): the harness does not compile against %s" % (pid, n, REPO))
    return {"prop": binp, "fuzz": fuzzp, "dir": d}


# --------------------------------------------------------------------------- running
def run_parallel(cmds, timeout):
    """cmds: list of (name, argv, env).  Returns list of (name, returncode, output)."""
    res = []
    pending = list(cmds)
    running = []
    t_end = time.time() + timeout
    while pending or running:
        while pending and len(running) < JOBS:
            name, argv, env = pending.pop(0)
            e = dict(os.environ)
            e.update(env)
            p = subprocess.Popen(argv, stdout=subprocess.PIPE, stderr=subprocess.STDOUT, env=e, preexec_fn=_die_with_parent)
            base = argv[argv.index("--replay-out") + 1] if "--replay-out" in argv else None
            running.append((name, Watched(p, base)))
        still = []
        for name, w in running:
            r = w.poll(0.2 / max(1, len(running)) + 0.01)
            if r is not None:
                res.append((name, r[0], r[1]))
            elif time.time() > t_end:
                w.p.kill()
                out, _ = w.p.communicate()
                res.append((name, -999, out.decode("utf-8", "replace")))   # budget hit: inconclusive, never a verdict
            else:
                still.append((name, w))
        running = still
    return res


def load_report(path):
    try:
        with open(path) as f:
            return json.load(f)
    except Exception:
        return None


def load_hashes(path):
    s = set()
    try:
        with open(path, "rb") as f:
            data = f.read()
        for i in range(0, len(data) - 7, 8):
            s.add(data[i:i + 8])
    except OSError:
        pass
    return s


def _die_with_parent():
    """preexec_fn: children are killed when the driver dies (a killed driver must not leave runaway processes behind)."""
    try:
        import ctypes, signal
        ctypes.CDLL("libc.so.6", use_errno=True).prctl(1, signal.SIGKILL)   # PR_SET_PDEATHSIG
    except Exception:
        pass


def _cpu_ticks(pid):
    """utime+stime of a process (all threads), in clock ticks; None when it is gone."""
    try:
        with open("/proc/%d/stat" % pid) as f:
            rest = f.read().rsplit(")", 1)[1].split()
        return int(rest[11]) + int(rest[12])
    except (OSError, IndexError, ValueError):
        return None


LINGER_S = 40       # a process that has already written its .crash/.hang case file but is still alive after this long is killed
STALL_S = 45        # a process that is alive but has consumed no CPU time at all for this long is blocked (deadlock), not slow
STALL_MARK = "\n   why: stalled: the process stayed alive for %d s without consuming any CPU time (every thread blocked - a deadlock, e.g. inside the race reporter)\n" % STALL_S


# Stages that every check (except C19's and C20's own) runs in addition to its own engines: the same functions under concurrent first use
# (the ThreadSanitizer harness of C20, programs restricted to this property's operation kinds) and under allocation failure (the fault
# enumerator of C19, restricted to this property's operations).  A result that is wrong only when two threads use a function for the first
# time at once, or only after an allocation failed, is still a wrong result of that function.
AUX = {
    "auxC20": {"pid": "C20", "tsan": True, "enum": True, "enum_shards": {"quick": 4, "thorough": 8}, "rc_cases": {"quick": 50, "thorough": 400}, "rc_procs": {"quick": 4, "thorough": 8}},
    "auxC19": {"pid": "C19", "tsan": False, "enum": True, "enum_shards": {"quick": 4, "thorough": 8}, "rc_cases": {"quick": 0, "thorough": 0}, "rc_procs": {"quick": 0, "thorough": 0}},
}


def aux_variants(pid):
    return [] if pid in ("C19", "C20") or os.environ.get("VERIF_NO_AUX") else list(AUX)


class Watched:
    """A child process observed for CPU progress.  poll() returns None while running, else (returncode, output)."""
    def __init__(self, p, case_base=None):
        self.p = p; self.ticks = _cpu_ticks(p.pid); self.since = time.time(); self.stalled = False; self.killed_at = None
        self.case_base = case_base; self.saved_at = None
    def poll(self, wait=0.2):
        try:
            out, _ = self.p.communicate(timeout=wait)
            out = out.decode("utf-8", "replace")
            if self.stalled:
                return (-778, out + STALL_MARK)
            return (self.p.returncode, out)
        except subprocess.TimeoutExpired:
            pass
        now = time.time()
        # a process that has saved its failing case (sanitizer death callback / watchdog) but does not manage to exit - e.g. its other
        # threads keep spinning while the reporter holds a lock - is stopped; the saved case is what gets replayed
        if self.case_base and self.saved_at is None and (os.path.exists(self.case_base + ".crash") or os.path.exists(self.case_base + ".hang")):
            self.saved_at = now
        if self.saved_at is not None and now - self.saved_at > LINGER_S:
            self.p.kill()
            return None
        t = _cpu_ticks(self.p.pid)
        if t is not None and t != self.ticks:
            self.ticks = t; self.since = now
        elif not self.stalled and now - self.since > STALL_S:
            self.stalled = True; self.killed_at = now
            try:
                self.p.send_signal(6)          # SIGABRT: the engine's handler saves the current case, then the process dies
            except OSError:
                pass
        elif self.stalled and now - self.killed_at > 8:
            self.p.kill()
        return None


def replay_verdict(binp, path, times=3, need=None, extra_env=None):
    """Replays a saved case `times` times (concurrently) with the plain replay engine.  Returns (reproduces every time, text)."""
    env = dict(os.environ)
    env["ASAN_OPTIONS"] = ASAN_ENV
    env["UBSAN_OPTIONS"] = "print_stacktrace=1"
    env["TSAN_OPTIONS"] = "halt_on_error=1 exitcode=66"
    env.update(extra_env or {})
    procs = [subprocess.Popen([binp, "replay", path], stdout=subprocess.PIPE, stderr=subprocess.STDOUT, env=env, preexec_fn=_die_with_parent) for _ in range(times)]
    text = ""
    n_bad = 0
    t_end = time.time() + 300
    for p in procs:
        w = Watched(p)
        res = None
        while res is None:
            res = w.poll(0.5)
            if res is None and time.time() > t_end:
                p.kill(); p.communicate()
                res = (0, "replay timed out (wall clock; not a verdict)")
        rc, out = res
        if rc != 0:
            n_bad += 1
            text = out
    return n_bad >= (times if need is None else need), text


def signature(text):
    """Root-cause-ish signature of a replay output: the oracle's reason or the sanitizer's headline, numbers removed."""
    for l in text.splitlines():
        m = re.search(r"why: (.*)", l) or re.search(r"ERROR: \w+Sanitizer: ([\w-]+)", l) or re.search(r"runtime error: (.*)", l) or re.search(r"WARNING: ThreadSanitizer: (.*?) \(", l)
        if m:
            return re.sub(r"0x[0-9a-fA-F]+|\d+", "#", m.group(1))[:160]
    return re.sub(r"0x[0-9a-fA-F]+|\d+", "#", text[-200:])


def load_known():
    p = os.path.join(VERIF, "known_findings.json")
    try:
        with open(p) as f:
            return json.load(f)
    except OSError:
        return {"open": [], "fixed": []}


def match_known(pid, text):
    for k in load_known().get("open", []):
        if k.get("property") == pid and re.search(k["match"], text, re.S):
            return k
    return None


def check(pid, tier):
    t0 = time.time()
    seed = int(os.environ.get("VERIF_SEED", "1") or "1")
    spec = PROPS[pid]
    cfg = spec[tier]
    variants = tier_variants(spec, tier)
    want_fuzz = cfg.get("fuzz_secs", 0) > 0
    configure(); build_engines()
    from concurrent.futures import ThreadPoolExecutor
    with ThreadPoolExecutor(max(1, len(variants))) as ex:      # the build variants compile side by side
        bins = dict(zip(variants, ex.map(lambda v: build_prop(pid, v, want_fuzz=want_fuzz), variants)))
    vcfg = lambda v: {**cfg, **cfg.get("variant_cfg", {}).get(v, {})}      # per-variant overrides of rc_cases / rc_procs / enum
    aux = aux_variants(pid)
    with ThreadPoolExecutor(max(1, len(aux))) as ex:
        bins.update(dict(zip(aux, ex.map(lambda v: build_prop(AUX[v]["pid"], ""), aux))))
    venv = lambda v: ({"VERIF_FAMILY": pid} if v in AUX else {})
    work = os.path.join(BUILD, "work-%s-%s%s-%d" % (pid, tier, ALT_TAG, os.getpid()))
    shutil.rmtree(work, ignore_errors=True)
    os.makedirs(work)
    envbase = {"ASAN_OPTIONS": ASAN_ENV, "UBSAN_OPTIONS": "print_stacktrace=1", "TSAN_OPTIONS": "halt_on_error=1 exitcode=66 report_signal_unsafe=0"}
    reports, candidates, notes = [], [], []
    info = json.loads(subprocess.run([bins[variants[0]]["prop"], "info"], stdout=subprocess.PIPE, env={**os.environ, **envbase}).stdout)

    # 1. replay corpus (saved regressions), plain engine
    regress = sorted(glob.glob(os.path.join(VERIF, "corpus", pid, "regress-*")))
    n_regress = 0
    for v in variants:
        for f in regress:
            bad, text = replay_verdict(bins[v]["prop"], f, times=1)
            n_regress += 1
            if bad:
                candidates.append((v, f, "regression corpus"))

    # 1b. open known findings: their saved inputs are replayed with the generator's exclusion switched off;
    #     a finding that still reproduces is announced (KNOWN-FINDING), never added at run time
    known_lines = []
    for k in load_known().get("open", []):
        if k.get("property") != pid:
            continue
        still = False
        for rel in k.get("replay", []):
            f = os.path.join(VERIF, rel)
            env = dict(os.environ); env.update(envbase); env["VERIF_INCLUDE_KNOWN"] = "1"
            for v in variants:
                try:
                    rr = subprocess.run([bins[v]["prop"], "replay", f], stdout=subprocess.PIPE, stderr=subprocess.STDOUT, env=env, timeout=120)
                    out = rr.stdout.decode("utf-8", "replace")
                    if rr.returncode != 0 and re.search(k["match"], out, re.S):
                        still = True
                except subprocess.TimeoutExpired:
                    pass
        if still:
            known_lines.append("KNOWN-FINDING: property=%s %s" % (pid, k["what"]))
        else:
            notes.append("open finding %s did not reproduce from its saved inputs (repaired?)" % k["id"])

    cmds = []
    # 2. enumerators
    if info["has_enumerator"]:
        ns = cfg.get("enum_shards", 16)
        for v in variants:
            if not vcfg(v).get("enum", True):
                continue
            for s in range(ns):
                rep = os.path.join(work, "enum-%s-%d.json" % (v, s))
                cmds.append(("enum:%s:%d" % (v, s), [bins[v]["prop"], "enum", "--shard", str(s), "--nshards", str(ns), "--tier", "0" if tier == "quick" else "1",
                                                       "--report", rep, "--replay-out", os.path.join(work, "enum-%s-%d.case" % (v, s))], envbase))
    for v in aux:
        if AUX[v]["enum"]:
            ns = AUX[v]["enum_shards"][tier]
            for s_ in range(ns):
                rep = os.path.join(work, "enum-%s-%d.json" % (v, s_))
                cmds.append(("enum:%s:%d" % (v, s_), [bins[v]["prop"], "enum", "--shard", str(s_), "--nshards", str(ns), "--tier", "0" if tier == "quick" else "1",
                                                        "--report", rep, "--replay-out", os.path.join(work, "enum-%s-%d.case" % (v, s_))], {**envbase, **venv(v)}))
        for i in range(AUX[v]["rc_procs"][tier]):
            rep = os.path.join(work, "rc-%s-%d.json" % (v, i))
            rcseed = (seed * 1000003 + i * 7919 + 77) & 0x7FFFFFFFFFFFFFFF
            env = {**envbase, **venv(v)}
            env["RC_PARAMS"] = "seed=%d max_success=%d max_size=%d" % (rcseed, AUX[v]["rc_cases"][tier], 700)
            cmds.append(("rc:%s:%d" % (v, i), [bins[v]["prop"], "rc", "--report", rep, "--replay-out", os.path.join(work, "rc-%s-%d.case" % (v, i))], env))
    # 3. rapidcheck
    for v in variants:
        nproc = vcfg(v).get("rc_procs", 4)
        for i in range(nproc):
            rep = os.path.join(work, "rc-%s-%d.json" % (v, i))
            rcseed = (seed * 1000003 + i * 7919 + 1) & 0x7FFFFFFFFFFFFFFF
            env = dict(envbase)
            env["RC_PARAMS"] = "seed=%d max_success=%d max_size=%d" % (rcseed, vcfg(v)["rc_cases"], cfg.get("max_size", info["max_len"]))
            cmds.append(("rc:%s:%d" % (v, i), [bins[v]["prop"], "rc", "--report", rep, "--replay-out", os.path.join(work, "rc-%s-%d.case" % (v, i))], env))
    results = run_parallel(cmds, cfg.get("budget_s", 3600))

    # 4. libFuzzer (thorough)
    fuzz_results = []
    if want_fuzz:
        fcmds = []
        nworkers = cfg.get("fuzz_workers", 16)
        fvariants = variants[:1] if len(variants) == 1 else variants
        per = max(1, nworkers // len(fvariants))
        for v in fvariants:
            for w in range(per):
                wd = os.path.join(work, "fuzz-%s-%d" % (v, w))
                corp = os.path.join(wd, "corpus")
                os.makedirs(corp)
                if w % 2 == 0:   # even workers start from seeds, odd ones from an empty corpus
                    subprocess.run([bins[v]["prop"], "corpus", "--dir", corp], env={**os.environ, **envbase}, stdout=subprocess.DEVNULL)
                    for f in glob.glob(os.path.join(VERIF, "corpus", pid, "*")):
                        shutil.copy(f, corp)
                fseed = (seed * 131 + w) % 2147483647 or 1
                env = dict(envbase)
                env["VERIF_FUZZ_REPORT"] = os.path.join(work, "fuzz-%s-%d.json" % (v, w))
                env["VERIF_FUZZ_SEED"] = str(fseed)
                argv = [bins[v]["fuzz"], corp, "-seed=%d" % fseed, "-max_total_time=%d" % cfg["fuzz_secs"], "-max_len=%d" % info["max_len"], "-timeout=60",
                        "-rss_limit_mb=3000", "-artifact_prefix=" + wd + "/", "-print_final_stats=1", "-detect_leaks=0", "-len_control=20"]
                dic = os.path.join(VERIF, "corpus", pid + ".dict")
                if os.path.exists(dic):
                    argv.append("-dict=" + dic)
                fcmds.append(("fuzz:%s:%d" % (v, w), argv, env))
        fuzz_results = run_parallel(fcmds, cfg["fuzz_secs"] + 300)

    # --- collect
    evaluations = 0
    discarded = 0
    excluded = 0
    labels = {}
    samples_by_kind = {"enum": [], "rc": [], "fuzz": []}
    exhausted = []
    engines = []
    nt_hashes = set()
    enum_nt = 0
    fuzz_nt_max = 0
    inconclusive = []
    for name, rc, out in results + fuzz_results:
        kind, v, idx = name.split(":")
        rep = load_report(os.path.join(work, "%s-%s-%s.json" % (kind, v, idx)))
        if rep:
            evaluations += rep["evaluations"]
            discarded += rep["discarded"]
            excluded += rep["excluded_known"]
            for k, n in rep["labels"].items():
                labels[k] = labels.get(k, 0) + n
            samples_by_kind[kind].append(list(rep["samples"]))
            for s in rep["exhausted"]:
                if s not in exhausted:
                    exhausted.append(s)
            engines.append({"engine": rep["engine"], "variant": v, "index": int(idx), "seed": rep["seed"], "evaluations": rep["evaluations"],
                            "nontrivial": rep["nontrivial"], "exit": rc})
            if kind == "enum":
                enum_nt += rep["nontrivial"]
            elif kind == "fuzz":
                fuzz_nt_max = max(fuzz_nt_max, rep["distinct_nontrivial"])
                nt_hashes |= load_hashes(os.path.join(work, "%s-%s-%s.json.hashes" % (kind, v, idx)))
            else:
                nt_hashes |= load_hashes(os.path.join(work, "%s-%s-%s.json.hashes" % (kind, v, idx)))
        if rc == -999 or rc == -9:
            # time budget hit or killed from outside (OOM killer): exploration just ended, never a verdict
            inconclusive.append(name + (" (killed)" if rc == -9 else " (time budget)"))
            continue
        if kind == "fuzz":
            wd = os.path.join(work, "fuzz-%s-%s" % (v, idx))
            arts = glob.glob(os.path.join(wd, "crash-*")) + glob.glob(os.path.join(wd, "leak-*"))
            for a in arts:
                candidates.append((v, a, "libFuzzer artifact"))
            for a in glob.glob(os.path.join(wd, "timeout-*")) + glob.glob(os.path.join(wd, "oom-*")):
                candidates.append((v, a, "libFuzzer timeout/oom artifact (counts only if it reproduces under the replay engine)"))
            if rc != 0 and not arts:
                notes.append("fuzz worker %s exited %d without artifact: %s" % (name, rc, out[-400:]))
        elif rc != 0:
            base = os.path.join(work, "%s-%s-%s.case" % (kind, v, idx))
            found = False
            if rc == -778:
                notes.append("%s stalled (alive, no CPU time for %d s) and was stopped" % (name, STALL_S))
            for suffix in ("", ".crash", ".hang"):
                if os.path.exists(base + suffix):
                    candidates.append((v, base + suffix, "%s exit %d%s" % (kind, rc, suffix)))
                    found = True
            if not found:
                notes.append("%s exited %d with no saved case: %s" % (name, rc, out[-600:]))
                candidates.append((v, None, "%s exit %d without a saved case: %s" % (name, rc, out[-300:])))

    # --- verdict: every candidate is replayed 3x by the plain replay engine
    violations, known_hits = [], []
    seen = set()
    sigs = set()
    rdir = os.path.join(REPLAYS_DIR, pid)
    for old in glob.glob(os.path.join(rdir, tier + "-*")):
        os.remove(old)
    n_replayed = 0
    hang_confirmed = False
    for v, path, how in candidates:
        if len(violations) >= 3 or n_replayed >= 12:
            notes.append("%d further failing candidates not replayed (same run)" % (len(candidates) - n_replayed))
            break
        if path is None:
            violations.append(("(none)", how))
            continue
        if path.endswith(".hang") and hang_confirmed:
            continue          # one confirmed non-terminating case is enough; each further one costs a full watchdog period
        with open(path, "rb") as f:
            blob = f.read()
        digest = hashlib.sha256(blob + v.encode()).hexdigest()[:12]
        if digest in seen:
            continue
        seen.add(digest)
        n_replayed += 1
        if spec.get("tsan") or (v in AUX and AUX[v]["tsan"]):
            # thread programs: whether a saved case shows its failure again depends on the schedule, so it is replayed 12 times (each replay
            # repeats the case 4 times in one process) and counts when the failure is seen again at least once - the original observation
            # plus an independent second one; a sanitizer report or digest mismatch never occurs by chance on a tree without the defect
            for _batch in range(4):      # up to 4 batches of 12 fresh processes: a first-use window of a few hundred nanoseconds is hit by a few percent of them
                ok, text = replay_verdict(bins[v]["prop"], path, times=12, need=1, extra_env=venv(v))
                if ok:
                    break
        else:
            ok, text = replay_verdict(bins[v]["prop"], path, extra_env=venv(v))
        if ok:
            if path.endswith(".hang"):
                hang_confirmed = True
            sig = signature(text)
            if sig in sigs:
                continue
            sigs.add(sig)
        if not ok and how.startswith("enum") and not (v in AUX and AUX[v]["tsan"]) and not spec.get("tsan"):
            # A case of a deterministic enumeration that fails there but passes when executed alone depends on what the cases before it left
            # behind in the process (a history): the reproducible unit is the enumeration shard itself.  It is run again, twice; when both runs
            # fail, the violation is reported with a replay file that names the shard (verif.py replay re-runs it).
            m_ = re.search(r"enum-.*-(\d+)\.case", os.path.basename(path))
            if m_:
                shard_ = m_.group(1)
                ns_ = str(AUX[v]["enum_shards"][tier] if v in AUX else cfg.get("enum_shards", 16))
                cmd_ = [bins[v]["prop"], "enum", "--shard", shard_, "--nshards", ns_, "--tier", "0" if tier == "quick" else "1"]
                env_ = dict(os.environ); env_.update(envbase); env_.update(venv(v))
                outs_ = []
                for _ in range(2):
                    try:
                        rr_ = subprocess.run(cmd_, stdout=subprocess.PIPE, stderr=subprocess.STDOUT, env=env_, timeout=1800)
                        outs_.append((rr_.returncode, rr_.stdout.decode("utf-8", "replace")))
                    except subprocess.TimeoutExpired:
                        outs_.append((0, ""))
                if all(rc_ != 0 for rc_, _o in outs_):
                    ok = True
                    text = "   why: [depends on the cases enumerated before it in the same process] " + (re.search(r"FAIL (.*)", outs_[0][1]) or re.search(r"(.*)", outs_[0][1][-300:])).group(1) + "\n" + outs_[0][1][-1500:]
                    blob = ("ENUMSHARD %s %s %s %s\n" % (v or "-", shard_, ns_, "0" if tier == "quick" else "1")).encode()
                    digest = hashlib.sha256(blob + pid.encode()).hexdigest()[:12]
        if not ok:
            notes.append("candidate from %s did not reproduce under replay (%s); not reported" % (how, "0 of 48" if (spec.get("tsan") or (v in AUX and AUX[v]["tsan"])) else "3 of 3 required"))
            continue
        k = match_known(pid, text)
        if k:
            known_hits.append(k)
            continue
        os.makedirs(rdir, exist_ok=True)
        dest = os.path.join(rdir, "%s%s-%s" % (tier, "-" + v if v else "", digest))
        with open(dest, "wb") as f:
            f.write(blob)
        with open(dest + ".txt", "w") as f:
            f.write("variant=%s found by %s\nreplay: ./verif.py replay %s %s\n\n%s\n" % (v or "default", how, pid, dest, text[-4000:]))
        violations.append((dest, text))

    # samples: interleave processes of each engine kind so that no engine crowds out the others
    samples = []
    for kind_, quota in (("rc", 14), ("enum", 6), ("fuzz", 4)):
        lists = samples_by_kind[kind_]
        taken, depth = 0, 0
        while taken < quota and any(depth < len(l) for l in lists):
            for l in lists:
                if depth < len(l) and taken < quota and l[depth] not in samples:
                    samples.append(l[depth]); taken += 1
            depth += 1
    distinct = len(nt_hashes) + enum_nt
    wall = time.time() - t0
    evidence = {
        "property_id": pid, "tier": tier, "seed": seed, "level": info["level"],
        "coverage": {
            "evaluations": evaluations, "distinct_nontrivial": distinct, "rule": info["rule"], "samples": samples[:24],
            "labels": dict(sorted(labels.items())), "exhausted_subdomains": exhausted, "excluded_known": excluded, "discarded": discarded,
            "engines": engines, "regression_files_replayed": n_regress, "inconclusive_processes": inconclusive,
            "distinct_nontrivial_note": "union of decoded-case hashes over rapidcheck and libFuzzer processes plus the enumerators' own counts (enumerated cases are distinct by construction)",
            "exhaustive": False, "variants": variants + aux, "notes": notes[:10],
        },
        "assumptions": spec.get("assumptions", []),
        "wall_s": round(wall, 2), "violations": len(violations),
    }
    os.makedirs(EVIDENCE_DIR, exist_ok=True)
    with open(os.path.join(EVIDENCE_DIR, pid + ".json"), "w") as f:
        json.dump(evidence, f, indent=1)
        f.write("\n")
    for l in known_lines:
        print(l)
    printed = set(k["id"] for k in load_known().get("open", []) if any(k["what"] in l for l in known_lines))
    for k in known_hits:
        if k["id"] not in printed:
            printed.add(k["id"])
            print("KNOWN-FINDING: property=%s %s" % (pid, k["what"]))
    for dest, text in violations:
        print("VIOLATION property=%s replay=%s" % (pid, dest))
        tail = [l for l in text.splitlines() if l.strip()][:12]
        for l in tail:
            print("    " + l[:300])
    print("%s %s: %d evaluations, %d distinct non-trivial, %d violation(s), %.1fs%s" % (pid, tier, evaluations, distinct, len(violations), wall,
                                                                                 (" [inconclusive: %d processes hit the time budget]" % len(inconclusive)) if inconclusive else ""))
    for n in notes[:5]:
        print("note: " + n[:400])
    shutil.rmtree(work, ignore_errors=True)
    return 1 if violations else 0


def baseline():
    """Upstream suite, hook guard OFF, built from REPO's current tree with the system googletest."""
    d = os.path.join(BUILD, "baseline")
    shutil.rmtree(d, ignore_errors=True)
    r = sh(["cmake", "-S", REPO, "-B", d, "-G", "Ninja", "-DCMAKE_BUILD_TYPE=RelWithDebInfo", "-DFETCHCONTENT_SOURCE_DIR_GTEST=/usr/src/googletest",
            "-DFETCHCONTENT_FULLY_DISCONNECTED=ON"], stdout=subprocess.PIPE, stderr=subprocess.STDOUT, text=True)
    if r.returncode:
        print(r.stdout[-3000:]); return 2
    r = sh(["cmake", "--build", d, "-j", str(JOBS)], stdout=subprocess.PIPE, stderr=subprocess.STDOUT, text=True)
    if r.returncode:
        print(r.stdout[-3000:]); return 2
    r = sh([os.path.join(d, "test", "st_gtests")], stdout=subprocess.PIPE, stderr=subprocess.STDOUT, text=True)
    passed = set(re.findall(r"\[       OK \] (\S+)", r.stdout))
    base = json.load(open("/root/.vp/BASELINE.json"))["stable_pass"] if os.path.exists("/root/.vp/BASELINE.json") else []
    want = set(x.replace("::", ".") for x in base)
    missing = sorted(want - passed)
    print("baseline (guard off): %d passed, %d of %d baseline tests missing, exit %d" % (len(passed), len(missing), len(want), r.returncode))
    for m in missing[:20]:
        print("  missing: " + m)
    shutil.rmtree(d, ignore_errors=True)
    return 0 if r.returncode == 0 and not missing else 1


def main():
    ap = argparse.ArgumentParser()
    ap.add_argument("cmd")
    ap.add_argument("args", nargs="*")
    ap.add_argument("--tier", default="quick")
    a, _unknown = ap.parse_known_args()
    os.makedirs(BUILD, exist_ok=True)
    if a.cmd == "setup":
        configure(); build_engines()
        procs = []
        for pid in PROPS:
            if os.path.exists(os.path.join(VERIF, "harness", "prop_%s.cpp" % pid)):
                procs.append(subprocess.Popen([sys.executable, os.path.abspath(__file__), "build", pid]))
        rc = 0
        for p in procs:
            rc |= p.wait()
        return rc
    if a.cmd == "build":
        for v in dict(PROPS[a.args[0]].get("variants", {"": []})):
            print(build_prop(a.args[0], v, want_fuzz="--fuzz" in sys.argv))
        return 0
    if a.cmd == "check":
        return check(a.args[0], a.tier)
    if a.cmd == "replay":
        pid = a.args[0]
        rc = 0
        todo = [(v, pid, v, {}) for v in all_variants(PROPS[pid])] + [(v, AUX[v]["pid"], "", {"VERIF_FAMILY": pid}) for v in aux_variants(pid)]
        try:
            head = open(a.args[1], "rb").read(200)
        except OSError:
            head = b""
        if head.startswith(b"ENUMSHARD "):      # a whole enumeration shard is the reproducible unit (see check())
            _, v_, shard_, ns_, t_ = head.decode().split()[:5]
            v_ = "" if v_ == "-" else v_
            for v, bp, bv, extra in todo:
                if v == v_:
                    b = build_prop(bp, bv)
                    env = dict(os.environ); env["ASAN_OPTIONS"] = ASAN_ENV; env.update(extra)
                    return 1 if subprocess.run([b["prop"], "enum", "--shard", shard_, "--nshards", ns_, "--tier", t_], env=env).returncode else 0
            return 0
        names = " ".join(os.path.basename(x) for x in a.args[1:])
        for v, bp, bv, extra in todo:
            if v in AUX and ("-" + v + "-") not in names:
                continue           # files written by the concurrent-use / allocation-fault stages carry the stage's name
            if v not in AUX and any(("-" + x + "-") in names for x in AUX):
                continue
            b = build_prop(bp, bv)
            env = dict(os.environ); env["ASAN_OPTIONS"] = ASAN_ENV; env["TSAN_OPTIONS"] = "halt_on_error=1 exitcode=66"; env.update(extra)
            rc |= subprocess.run([b["prop"], "replay"] + a.args[1:], env=env).returncode
        return 1 if rc else 0
    if a.cmd == "baseline":
        return baseline()
    ap.error("unknown command")


if __name__ == "__main__":
    sys.exit(main())
